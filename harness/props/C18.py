"""C18 - moving or converting data preserves content, dtype kind and aliasing rules.

Tie to /repo: real containers (and synthetic MoveDataMixin dataclasses for arbitrary graphs) are built with injected
aliasing, abstracted into the object graph of coq/Model/MoveData.v (heap of Tensor / Mixin / Spatial / Module / Plain
nodes), the same call is executed by the implementation and by the Coq model (vm_compute), and both final graphs
(result + the source after the call) are canonicalised (new objects / storages renamed in traversal order) and compared
exactly.  The oracle checks the property statement itself on the implementation.
"""
import copy as _copy
import dataclasses
import datetime
import enum
import random

import torch

import vlib
from vlib import Family

LEVEL = 'proof'
RULE = ('graph_synthetic: random DAGs (1-4 levels) of synthetic MoveDataMixin dataclasses / SpatialDimension / tensors of 8 dtypes '
        '(fresh, views, expanded) / Rotation and buffer modules / mutable and immutable plain objects with arbitrary sharing '
        '(and a few cycles); containers: KData, KHeader, AcqInfo, AcqIdx, KTrajectory, IData, QData, CsmData, DcfData, KNoise, '
        'SpatialDimension, pairs of them, with injected aliasing (same tensor in two fields, views, expanded, shared containers, '
        'shared dict / EncodingLimits); each x one of the 3 overloads of to() x 6 dtypes x copy, cpu, double, single, half, clone, '
        'apply. Non-trivial = the graph has sharing or the call converts/copies something; distinct by case hash.')
TRUSTED_BASE = ['abstraction of python objects into the model graph (harness/props/C18.py: extract / canon)',
                'torch.Tensor.to, copy.deepcopy, Module._apply as oracles (modelled, not verified)']
ASSUMPTIONS = ['CPU only (device moves are not modelled)', 'requested dtypes are floating or complex',
               'no Module is itself a MoveDataMixin (true in mrpro today)']
PREAMBLE = 'From MrVerif Require Import Base.Prelude Model.MoveData.\nLocal Open Scope nat_scope.'

DTYPES = {'f16': torch.float16, 'f32': torch.float32, 'f64': torch.float64, 'c32': torch.complex32, 'c64': torch.complex64,
          'c128': torch.complex128, 'i32': torch.int32, 'i64': torch.int64, 'bool': torch.bool}
KINDS = {'KFloat': 0, 'KComplex': 1, 'KInt': 2, 'KBool': 3}
KIND_NAMES = ['KFloat', 'KComplex', 'KInt', 'KBool']
PREC_NAMES = ['P16', 'P32', 'P64']


def tdesc_of_dtype(dt):
    if dt.is_complex:
        return 1, {torch.complex32: 0, torch.complex64: 1, torch.complex128: 2}[dt]
    if dt.is_floating_point:
        return 0, {torch.float16: 0, torch.float32: 1, torch.float64: 2, torch.bfloat16: 0}[dt]
    if dt == torch.bool:
        return 3, 0
    return 2, {torch.int32: 1, torch.int64: 2}.get(dt, 0)


# ------------------------------------------------------------------------------------------------
# building real objects
# ------------------------------------------------------------------------------------------------
_SYN = {}


def syn_class(k):
    from mrpro.data.MoveDataMixin import MoveDataMixin
    if k not in _SYN:
        _SYN[k] = dataclasses.make_dataclass(f'Syn{k}', [(f'f{i}', object) for i in range(k)], bases=(MoveDataMixin,))
    return _SYN[k]


class BufModule(torch.nn.Module):
    """a module that is not a MoveDataMixin, with a complex buffer, an integer buffer and a float parameter"""

    def __init__(self, a, b, c):
        super().__init__()
        self.p = torch.nn.Parameter(a, requires_grad=False)
        self.register_buffer('cb', b)
        self.register_buffer('ib', c)


def rand_tensor(rng, dt=None, shape=None):
    """values k/8 + perturbation < 1e-3: the content class (k) survives a conversion to any precision"""
    dt = dt or rng.choice(['f16', 'f32', 'f32', 'f64', 'f64', 'c64', 'c64', 'c128', 'i32', 'i64', 'bool'])
    shape = shape or [rng.randint(1, 3) for _ in range(rng.randint(1, 3))]
    n = 1
    for s in shape:
        n *= s
    if dt == 'bool':
        return torch.tensor([rng.random() < 0.5 for _ in range(n)]).reshape(shape)
    if dt.startswith('i'):
        return torch.tensor([rng.randint(-9, 9) for _ in range(n)], dtype=DTYPES[dt]).reshape(shape)
    pert = (lambda: 0.0) if dt in ('f16', 'c32') else (lambda: rng.uniform(-9e-4, 9e-4))
    if dt.startswith('c'):
        vals = [complex(rng.randint(-24, 24) / 8 + pert(), rng.randint(-24, 24) / 8 + pert()) for _ in range(n)]
        return torch.tensor(vals, dtype=torch.complex128).reshape(shape).to(DTYPES[dt])
    vals = [rng.randint(-24, 24) / 8 + pert() for _ in range(n)]
    return torch.tensor(vals, dtype=torch.float64).reshape(shape).to(DTYPES[dt])


def rand_view(rng, base):
    """a tensor sharing the storage of base"""
    k = rng.randrange(4)
    if k == 0:
        return base[..., : max(1, base.shape[-1] - 1)]
    if k == 1:
        return base.unsqueeze(0).expand(2, *base.shape)
    if k == 2 and base.ndim >= 2:
        return base.transpose(0, -1)
    return base.reshape(-1)[::2] if base.numel() > 1 else base.view(base.shape)


def rand_plain(rng, mutable=None):
    mutable = rng.random() < 0.5 if mutable is None else mutable
    if mutable:
        return rng.choice([lambda: {'a': rng.randint(0, 5), 'l': [1, 2]}, lambda: [rng.randint(0, 5), {'x': 1}],
                           lambda: _limits(rng)])()
    return rng.choice([rng.randint(300, 900), 'name%d' % rng.randint(0, 9), None, rng.randint(1, 50) / 4,
                       datetime.datetime(2020, 1, rng.randint(1, 28))])


def _limits(rng):
    from mrpro.data.EncodingLimits import EncodingLimits, Limits
    return EncodingLimits(k1=Limits(0, rng.randint(1, 9), 0))


def rand_rotation(rng, dt=None):
    from mrpro.data import Rotation
    q = torch.tensor([[rng.randint(-3, 3) or 1, rng.randint(-3, 3), rng.randint(-3, 3), rng.randint(-3, 3)]
                      for _ in range(rng.randint(1, 2))], dtype=DTYPES[dt or rng.choice(['f32', 'f64'])])
    return Rotation.from_quat(q, normalize=False) if 'normalize' in Rotation.from_quat.__code__.co_varnames else Rotation.from_quat(q)


def rand_module(rng):
    if rng.random() < 0.6:
        return rand_rotation(rng)
    return BufModule(rand_tensor(rng, rng.choice(['f32', 'f64'])), rand_tensor(rng, rng.choice(['c64', 'c128'])),
                     rand_tensor(rng, 'i64'))


def spatial(rng, what='tensor'):
    from mrpro.data import SpatialDimension
    if what == 'tensor':
        dt = rng.choice(['f32', 'f64'])
        return SpatialDimension(*(rand_tensor(rng, dt, [2]) for _ in range(3)))
    if what == 'int':
        return SpatialDimension(*(rng.randint(300, 400) for _ in range(3)))
    return SpatialDimension(*(rng.randint(1, 90) / 8 for _ in range(3)))


def make_spatial(z, y, x):
    """SpatialDimension holding exactly these objects (__post_init__ would replace tensors by broadcast views)"""
    from mrpro.data import SpatialDimension
    s = SpatialDimension(0, 0, 0)
    for n, v in zip('zyx', (z, y, x)):
        object.__setattr__(s, n, v)
    return s


def build_synthetic(rng):
    """random DAG; nodes may be shared by any number of parents"""
    pool = []
    tensors = []
    for _ in range(rng.randint(2, 6)):
        if tensors and rng.random() < 0.3:
            t = rand_view(rng, rng.choice(tensors))
        else:
            t = rand_tensor(rng)
            tensors.append(t)
        pool.append(t)
    for _ in range(rng.randint(0, 3)):
        pool.append(rand_plain(rng))
    # plain containers (dict / list) that REFER to a tensor which may also be a direct field elsewhere (e.g. a misc dict or a history list);
    # placed early in the pool so that they tend to come before that field (added after round-5 seeded change C18-e2)
    if rng.random() < 0.35:
        t = rng.choice(tensors)
        pool.insert(0, {'ref': t, 'n': rng.randint(0, 5)} if rng.random() < 0.5 else [rng.randint(0, 5), t])
    for _ in range(rng.randint(0, 2)):
        pool.append(rand_module(rng))
    leaves = [p for p in pool if not isinstance(p, torch.nn.Module) and not isinstance(p, (dict, list))]
    from mrpro.data import SpatialDimension
    for _ in range(rng.randint(0, 2)):
        pool.append(make_spatial(*(rng.choice(leaves) if rng.random() < 0.7 else rand_tensor(rng) for _ in range(3))))
    mixins = []
    for _ in range(rng.randint(0, 4)):
        k = rng.randint(1, 4)
        m = syn_class(k)(*(rng.choice(pool) for _ in range(k)))
        pool.append(m)
        mixins.append(m)
    k = rng.randint(2, 5)
    root = syn_class(k)(*(rng.choice(pool[-6:] if rng.random() < 0.7 else pool) for _ in range(k)))
    if mixins and rng.random() < 0.04:
        m = rng.choice(mixins)
        object.__setattr__(m, 'f0', root)  # a cycle (only terminates if m is reachable from root - python: RecursionError)
    return root


def _acq_idx(rng, n):
    from mrpro.data.AcqInfo import AcqIdx
    return AcqIdx(*(torch.tensor([rng.randint(0, 5) for _ in range(n)], dtype=torch.int32).reshape(n, 1)
                    for _ in dataclasses.fields(AcqIdx)))


def _acq_info(rng, n=2, fdt=None):
    from mrpro.data import Rotation, SpatialDimension
    from mrpro.data.AcqInfo import AcqIdx, AcqInfo
    kw = {}
    fdt = fdt or rng.choice(['f32', 'f64'])
    for f in dataclasses.fields(AcqInfo):
        if f.name == 'idx':
            kw[f.name] = _acq_idx(rng, n)
        elif f.name == 'orientation':
            kw[f.name] = rand_rotation(rng, fdt)
        elif f.name in ('position', 'patient_table_position'):
            kw[f.name] = SpatialDimension(*(rand_tensor(rng, fdt, [n, 1]) for _ in range(3)))
        elif f.name in ('user_float', 'sample_time_us'):
            kw[f.name] = rand_tensor(rng, 'f32', [n, 2])
        else:
            kw[f.name] = rand_tensor(rng, rng.choice(['i32', 'i64']), [n, 1])
    return AcqInfo(**kw)


def _kheader(rng, n=2):
    from mrpro.data import KHeader
    from mrpro.data.traj_calculators import KTrajectoryCartesian
    h = KHeader(trajectory=KTrajectoryCartesian(), encoding_limits=_limits(rng), recon_matrix=spatial(rng, 'int'),
                recon_fov=spatial(rng, 'float'), encoding_matrix=spatial(rng, 'int'), encoding_fov=spatial(rng, 'float'),
                acq_info=_acq_info(rng, n), lamor_frequency_proton=rng.randint(1, 9) * 1e6,
                datetime=datetime.datetime(2021, 2, rng.randint(1, 28)) if rng.random() < 0.5 else None,
                te=rand_tensor(rng, 'f32', [2]) if rng.random() < 0.7 else None,
                ti=rand_tensor(rng, 'f64', [1]) if rng.random() < 0.5 else None,
                fa=rand_tensor(rng, 'f32', [2]) if rng.random() < 0.5 else None)
    h._misc['k'] = [rng.randint(0, 9)]
    return h


def _ktraj(rng):
    from mrpro.data import KTrajectory
    dt = rng.choice(['f32', 'f64'])
    return KTrajectory(rand_tensor(rng, dt, [1, 1, 1, 1]), rand_tensor(rng, dt, [1, 1, 2, 1]), rand_tensor(rng, dt, [1, 1, 1, 3]),
                       repeat_detection_tolerance=None)


def _iheader(rng):
    from mrpro.data import IHeader
    return IHeader(fov=spatial(rng, 'float'), te=rand_tensor(rng, 'f32', [2]), ti=None if rng.random() < 0.5 else rand_tensor(rng, 'f64', [1]),
                   fa=rand_tensor(rng, 'f32', [1]), tr=None, misc={'m': [rng.randint(0, 9)]})


def _qheader(rng):
    from mrpro.data import QHeader
    return QHeader(fov=spatial(rng, 'float'))


def build_container(kind, rng):
    import mrpro.data as D
    cdt = rng.choice(['c64', 'c128'])
    if kind == 'kdata':
        return D.KData(_kheader(rng), rand_tensor(rng, cdt, [1, 2, 1, 2, 3]), _ktraj(rng))
    if kind == 'kheader':
        return _kheader(rng)
    if kind == 'acqinfo':
        return _acq_info(rng)
    if kind == 'acqidx':
        return _acq_idx(rng, 2)
    if kind == 'ktraj':
        return _ktraj(rng)
    if kind == 'idata':
        return D.IData(rand_tensor(rng, cdt, [1, 1, 1, 2, 2]), _iheader(rng))
    if kind == 'qdata':
        return D.QData(rand_tensor(rng, rng.choice(['f32', 'f64']), [1, 1, 1, 2, 2]), _qheader(rng))
    if kind == 'csm':
        return D.CsmData(rand_tensor(rng, cdt, [1, 2, 1, 2, 2]), _qheader(rng))
    if kind == 'dcf':
        return D.DcfData(rand_tensor(rng, rng.choice(['f32', 'f64']), [1, 1, 2, 3]))
    if kind == 'knoise':
        return D.KNoise(rand_tensor(rng, cdt, [1, 2, 1, 1, 4]))
    if kind == 'spatial':
        return spatial(rng, rng.choice(['tensor', 'tensor', 'int', 'float']))
    if kind == 'pair':
        kinds = ['kdata', 'kheader', 'acqinfo', 'idata', 'qdata', 'csm', 'dcf', 'knoise', 'ktraj', 'spatial']
        return syn_class(2)(build_container(rng.choice(kinds), rng), build_container(rng.choice(kinds), rng))
    raise ValueError(kind)


CONTAINER_KINDS = ['kdata', 'kdata', 'kheader', 'acqinfo', 'acqidx', 'ktraj', 'idata', 'qdata', 'csm', 'dcf', 'knoise', 'spatial',
                   'pair', 'pair', 'pair']


def classify(obj):
    from mrpro.data import SpatialDimension
    from mrpro.data.MoveDataMixin import MoveDataMixin
    if isinstance(obj, torch.Tensor):
        return 'T'
    if isinstance(obj, SpatialDimension):
        return 'S'
    if isinstance(obj, MoveDataMixin):
        return 'M'
    if isinstance(obj, torch.nn.Module):
        return 'Mod'
    return 'P'


def fields_of(obj):
    return [(f.name, getattr(obj, f.name)) for f in dataclasses.fields(obj)]


def module_tensors(m):
    return [p for _, p in m.named_parameters()] + [b for _, b in m.named_buffers()]


def slots(root, allow_spatial_leaf):
    """all (parent, field name, value, class) reachable from root (each parent once)"""
    out, seen, stack = [], set(), [root]
    while stack:
        o = stack.pop()
        if id(o) in seen:
            continue
        seen.add(id(o))
        for name, v in fields_of(o):
            c = classify(v)
            if classify(o) != 'S' or allow_spatial_leaf:
                out.append((o, name, v, c))
            if c in 'MS':
                stack.append(v)
    return out


def inject(root, rng, n, allow_spatial_leaf=False):
    """inject aliasing between fields; with allow_spatial_leaf=False the components of a SpatialDimension are left alone"""
    done = []
    for _ in range(n):
        sl = slots(root, allow_spatial_leaf)
        op = rng.choice(['same_tensor', 'same_tensor', 'view', 'expand', 'same_container', 'same_plain', 'within_spatial'])
        ts = [s for s in sl if s[3] == 'T']
        if op in ('same_tensor', 'view', 'expand') and len(ts) >= 2:
            a, b = rng.sample(ts, 2)
            v = a[2] if op == 'same_tensor' else rand_view(rng, a[2]) if op == 'view' else a[2].unsqueeze(0).expand(3, *a[2].shape)
            object.__setattr__(b[0], b[1], v)
            done.append(op)
        elif op == 'same_container':
            cs = [s for s in sl if s[3] in 'MS']
            rng.shuffle(cs)
            for i, a in enumerate(cs):
                bs = [b for b in cs[i + 1:] if type(b[2]) is type(a[2]) and b[2] is not a[2] and not _reaches(a[2], b[0])]
                if bs:
                    object.__setattr__(bs[0][0], bs[0][1], a[2])
                    done.append(op)
                    break
        elif op == 'same_plain':
            ps = [s for s in sl if s[3] == 'P' and is_mutable(s[2])]
            if len(ps) >= 2:
                a, b = rng.sample(ps, 2)
                object.__setattr__(b[0], b[1], a[2])
                done.append(op)
        elif op == 'within_spatial':
            ss = [s for s in sl if s[3] == 'S' and classify(s[2].z) == 'T']
            if ss:
                s = rng.choice(ss)[2]
                object.__setattr__(s, 'y', s.z if rng.random() < 0.5 else rand_view(rng, s.z))
                done.append(op)
    return done


def _reaches(a, target):
    seen, stack = set(), [a]
    while stack:
        o = stack.pop()
        if o is target:
            return True
        if id(o) in seen or classify(o) not in 'MS':
            continue
        seen.add(id(o))
        stack.extend(v for _, v in fields_of(o))
    return False


_IMMUTABLE = (int, float, complex, str, bytes, bool, type(None), enum.Enum, datetime.datetime, datetime.date, torch.dtype, torch.device)


def is_mutable(o):
    if isinstance(o, _IMMUTABLE):
        return False
    if isinstance(o, (tuple, frozenset)):
        return any(is_mutable(x) for x in o)
    return True


def plain_key(o, depth=0):
    if isinstance(o, (int, float, complex, str, bytes, bool, type(None))):
        return repr(o)
    if isinstance(o, (list, tuple)):
        return type(o).__name__ + '[' + ','.join(plain_key(x, depth + 1) for x in o) + ']'
    if isinstance(o, dict):
        return 'dict{' + ','.join(f'{plain_key(k)}:{plain_key(v, depth + 1)}' for k, v in o.items()) + '}'
    if dataclasses.is_dataclass(o) and not isinstance(o, type):
        return type(o).__qualname__ + '(' + ','.join(plain_key(getattr(o, f.name), depth + 1) for f in dataclasses.fields(o)) + ')'
    if isinstance(o, (enum.Enum, datetime.datetime, datetime.date)):
        return repr(o)
    if hasattr(o, '__dict__') and depth < 4:
        return type(o).__qualname__ + '<' + ','.join(f'{k}={plain_key(v, depth + 1)}' for k, v in sorted(vars(o).items())) + '>'
    return type(o).__qualname__


def tensor_key(t):
    x = t.detach()
    if x.dtype == torch.bool or not (x.is_floating_point() or x.is_complex()):
        return (tuple(x.shape), tuple(int(v) for v in x.reshape(-1).tolist()))
    x = x.to(torch.complex128).reshape(-1)
    return (tuple(t.shape), tuple((round(v.real * 64), round(v.imag * 64)) for v in x.tolist()))


# ------------------------------------------------------------------------------------------------
# abstraction: python objects -> model heap
# ------------------------------------------------------------------------------------------------
class Graph:
    """node descriptors: ('T', kind, prec, sid, cid, view) ('M', [ids]) ('S', [ids]) ('Mod', [(kind, prec, sid, cid, view)...])
    ('P', cid, mutable)"""

    def __init__(self):
        self.idmap = {}      # id(obj) -> node id
        self.objs = []       # node id -> object (kept alive)
        self.nodes = {}      # node id -> descriptor
        self.smap = {}       # storage data_ptr -> storage id
        self.keep = []       # storages kept alive so that addresses are not reused
        self.cmap = {}       # content key -> content id

    def sid(self, t):
        st = t.untyped_storage()
        p = st.data_ptr()
        if p not in self.smap:
            self.smap[p] = len(self.smap)
            self.keep.append(st)
        return self.smap[p]

    def cid(self, key):
        return self.cmap.setdefault(key, len(self.cmap))

    def tdesc(self, t):
        k, p = tdesc_of_dtype(t.dtype)
        return (k, p, self.sid(t), self.cid(('T',) + tensor_key(t)), int(t._is_view()))

    def describe(self, obj, child_id):
        c = classify(obj)
        if c == 'T':
            return ('T',) + self.tdesc(obj)
        if c in 'MS':
            return (c, [child_id(v) for _, v in fields_of(obj)])
        if c == 'Mod':
            return ('Mod', [self.tdesc(t) for t in module_tensors(obj)])
        return ('P', self.cid(('P', plain_key(obj))), int(is_mutable(obj)))

    def add_from(self, root):
        """number unknown objects reachable from root in post-order (children first; a cyclic edge points upwards)"""
        onstack = set()

        def visit(o):
            if id(o) in self.idmap:
                return
            if id(o) in onstack:
                return
            onstack.add(id(o))
            if classify(o) in 'MS':
                for _, v in fields_of(o):
                    visit(v)
            onstack.discard(id(o))
            self.idmap[id(o)] = len(self.objs)
            self.objs.append(o)

        import sys
        visit(root)
        return self.idmap[id(root)]

    def snapshot(self):
        """describe every known object as it is now"""
        self.nodes = {i: self.describe(o, lambda v: self.idmap[id(v)]) for i, o in enumerate(self.objs)}
        return self.nodes


def canon(n0, ns0, nodes, rroot):
    """canonical form of (result graph from rroot, final state of the n0 source nodes): objects/storages that did not exist
    before the call are renamed in order of first appearance"""
    nlab, slab = {}, {}

    def nl(i):
        return i if i < n0 else ['n', nlab.setdefault(i, len(nlab))]

    def sl(s):
        return s if s < ns0 else ['n', slab.setdefault(s, len(slab))]

    def td(t):
        return [t[0], t[1], sl(t[2]), t[3], t[4]]

    def child(i):
        d = nodes[i]
        return ['imm', d[1]] if d[0] == 'P' and not d[2] else nl(i)

    def body(d):
        if d[0] == 'T':
            return ['T'] + td(d[1:])
        if d[0] in 'MS':
            return [d[0], [child(c) for c in d[1]]]
        if d[0] == 'Mod':
            return ['Mod', [td(t) for t in d[1]]]
        return ['P', d[1], d[2]]

    out, seen = [], set()

    def visit(i):
        if i in seen:
            return
        seen.add(i)
        d = nodes[i]
        if d[0] == 'P' and not d[2]:
            return
        out.append([nl(i)] + body(d))
        if d[0] in 'MS':
            for c in d[1]:
                visit(c)

    visit(rroot)
    src = [body(nodes[i]) for i in range(n0)]
    return {'result_root': nl(rroot), 'result': out, 'source_after': src}


# ------------------------------------------------------------------------------------------------
# calls
# ------------------------------------------------------------------------------------------------
FDT = ['f16', 'f32', 'f64', 'c32', 'c64', 'c128']


def rand_call(rng):
    k = rng.choice(['to_device', 'to_device', 'to_dtype', 'to_dtype', 'to_tensor', 'cpu', 'double', 'single', 'half', 'clone',
                    'apply_none', 'apply_identity'])
    c = {'fn': k}
    if k in ('to_device', 'to_dtype', 'to_tensor'):
        c['dtype'] = rng.choice(FDT + ['f32', 'f64', 'c64']) if k != 'to_device' or rng.random() < 0.8 else None
        c['style'] = rng.randrange(3)
    if k not in ('clone', 'apply_none', 'apply_identity'):
        c['copy'] = rng.random() < 0.5
    return c


def call_cfg(c):
    """(dtype name or None, copy) that _to receives according to the model's parse"""
    k = c['fn']
    if k in ('clone', 'apply_none', 'apply_identity'):
        return None, True
    dt = {'double': 'f64', 'single': 'f32', 'half': 'f16', 'cpu': None}.get(k, c.get('dtype'))
    return dt, c['copy']


def run_call(obj, c):
    k, cp = c['fn'], c.get('copy', False)
    dt = DTYPES[c['dtype']] if c.get('dtype') else None
    if k == 'to_device':
        st = c['style']
        if st == 0:
            return obj.to(None, dt, copy=cp)
        if st == 1:
            return obj.to(device='cpu', dtype=dt, copy=cp)
        return obj.to('cpu', dt, False, copy=cp) if dt is not None else obj.to(copy=cp)
    if k == 'to_dtype':
        return obj.to(dt, copy=cp) if c['style'] != 1 else obj.to(dt, False, copy=cp)
    if k == 'to_tensor':
        other = torch.zeros(1, dtype=dt)
        return obj.to(tensor=other, copy=cp) if c.get('kw') or c['style'] == 1 else obj.to(other, copy=cp) if c['style'] == 0 else obj.to(other, False, copy=cp)
    if k == 'cpu':
        return obj.cpu(copy=cp)
    if k in ('double', 'single', 'half'):
        return getattr(obj, k)(copy=cp)
    if k == 'clone':
        return obj.clone()
    if k == 'apply_none':
        return obj.apply(None)
    if k == 'apply_identity':
        return obj.apply(lambda x: x)
    raise ValueError(k)


def coq_call(c):
    def dlit(name):
        return f'(mkD {"FCplx" if name.startswith("c") else "FReal"} {PREC_NAMES[{"16": 0, "32": 0 if name.startswith("c") else 1, "64": 1 if name.startswith("c") else 2, "128": 2}[name[1:]]]})'
    k, cp = c['fn'], vlib.boollit(c.get('copy', False))
    if k == 'to_device':
        return f'(ToDevice {"None" if not c.get("dtype") else "(Some " + dlit(c["dtype"]) + ")"} {cp})'
    if k == 'to_dtype':
        return f'(ToDtype {dlit(c["dtype"])} {cp})'
    if k == 'to_tensor':
        return f'(ToTensor {dlit(c["dtype"])} {cp})'
    if k in ('cpu', 'double', 'single', 'half'):
        return f'({k.capitalize()} {cp})'
    return 'Clone'


# ------------------------------------------------------------------------------------------------
# one case
# ------------------------------------------------------------------------------------------------
def build(case):
    rng = random.Random(case['seed'])
    if case['kind'] == 'synthetic':
        root = build_synthetic(rng)
    elif case['kind'] == 'kf_spatial':
        # pattern of the former finding KF-C18-1 (repaired by c3cf2ec): one tensor object is a component of a SpatialDimension and also a field outside of it
        from mrpro.data import SpatialDimension
        t = rand_tensor(rng, 'f32', [2])
        root = syn_class(2)(make_spatial(t, rand_tensor(rng, 'f32', [2]), rand_tensor(rng, 'f32', [2])),
                            t if case['seed'] % 2 else make_spatial(rand_tensor(rng, 'f32', [2]), t, rand_tensor(rng, 'f32', [2])))
    elif case['kind'] == 'plain_ref':
        # a plain dict / list field that REFERS to a tensor which is also a direct field later in field order (a misc dict, a history list),
        # on the root or one level down (seeded change C18-e2)
        t = rand_tensor(rng, rng.choice(['f32', 'c64']), [3])
        plain = {'ref': t, 'n': 1} if case['seed'] % 2 else [0, t]
        if case['seed'] % 4 < 2:
            root = syn_class(3)(plain, t, rand_tensor(rng, 'f32', [2]))
        else:
            root = syn_class(2)(syn_class(2)(plain, rand_tensor(rng, 'i64', [2])), t)
    elif case['kind'] == 'kf_module':
        # pattern of the former finding KF-C18-2 (repaired by ff6337f): a Rotation (module) field and a precision-changing call without copy
        root = _acq_info(rng, fdt='f64') if case['seed'] % 2 else syn_class(2)(rand_rotation(rng, 'f64'), rand_tensor(rng, 'f64', [2]))
    else:
        root = build_container(case['kind'], rng)
        inject(root, rng, case.get('n_inject', 0), allow_spatial_leaf=case.get('spatial_leaf', False))
    return root


def abstract(case):
    """(graph, root id, heap list, ns0) of the source"""
    root = build(case)
    g = Graph()
    rid = g.add_from(root)
    nodes = g.snapshot()
    heap = [nodes[i] for i in range(len(g.objs))]
    return root, g, rid, heap, len(g.smap)


def deep_plain_ids(o, acc, depth=0):
    """ids of mutable objects reachable inside a plain object"""
    if not is_mutable(o) or depth > 6 or id(o) in acc:
        return
    acc[id(o)] = o
    if isinstance(o, dict):
        for v in o.values():
            deep_plain_ids(v, acc, depth + 1)
    elif isinstance(o, (list, tuple, set)):
        for v in o:
            deep_plain_ids(v, acc, depth + 1)
    elif dataclasses.is_dataclass(o):
        for f in dataclasses.fields(o):
            deep_plain_ids(getattr(o, f.name), acc, depth + 1)
    elif hasattr(o, '__dict__'):
        for v in vars(o).values():
            deep_plain_ids(v, acc, depth + 1)


def walk_paths(root):
    """[(path, object, parent class)] for every field at any depth (each path; graphs are small)"""
    out, stack = [], [((), root, None)]
    n = 0
    while stack and n < 4000:
        p, o, pc = stack.pop()
        n += 1
        out.append((p, o, pc))
        if classify(o) in 'MS' and len(p) < 8:
            for i, (_, v) in enumerate(fields_of(o)):
                stack.append((p + (i,), v, (classify(o), id(o))))
    return out


EPS = {torch.float16: 1e-3, torch.complex32: 1e-3, torch.float32: 1.2e-7, torch.complex64: 1.2e-7, torch.float64: 2.3e-16,
       torch.complex128: 2.3e-16}


def property_oracle(case, root, res, snap_before, strict):
    """the statement of C18 checked directly on the implementation; returns a list of messages"""
    msgs = []
    dtname, cp = call_cfg(case['call'])
    src_paths = walk_paths(root)
    res_by_path = {p: (o, pc) for p, o, pc in walk_paths(res)}
    src_tensors, res_tensors = [], []
    for p, o, pc in src_paths:
        if p not in res_by_path:
            msgs.append(f'field path {p} missing in the result')
            continue
        r = res_by_path[p][0]
        c = classify(o)
        if classify(r) != c or (c in 'MS' and type(r) is not type(o)):
            msgs.append(f'path {p}: {type(o).__name__} became {type(r).__name__}')
            continue
        pairs = [(o, r)] if c == 'T' else list(zip(module_tensors(o), module_tensors(r))) if c == 'Mod' else []
        if c == 'Mod' and len(module_tensors(o)) != len(module_tensors(r)):
            msgs.append(f'path {p}: module lost tensors')
        for s, t in pairs:
            src_tensors.append((p, s))
            res_tensors.append((p, t))
            sb = snap_before.get(id(s))
            sdt = sb[0] if sb else s.dtype
            sval = sb[1] if sb else s.detach()
            if tuple(t.shape) != tuple(sval.shape):
                msgs.append(f'path {p}: shape {tuple(sval.shape)} became {tuple(t.shape)}')
                continue
            if sdt.is_complex != t.dtype.is_complex or sdt.is_floating_point != t.dtype.is_floating_point:
                msgs.append(f'path {p}: dtype kind changed {sdt} -> {t.dtype}')
                continue
            if not (sdt.is_complex or sdt.is_floating_point):
                if t.dtype != sdt:
                    msgs.append(f'path {p}: integer/bool dtype changed {sdt} -> {t.dtype}')
                if not torch.equal(t.detach(), sval):
                    msgs.append(f'path {p}: integer/bool values changed')
                continue
            want = sdt if dtname is None else (DTYPES[dtname].to_complex() if sdt.is_complex else DTYPES[dtname].to_real())
            if t.dtype != want:
                msgs.append(f'path {p}: dtype {sdt} became {t.dtype}, requested {want}')
            eps = max(EPS[t.dtype], EPS[sdt])
            a, b = t.detach().to(torch.complex128), sval.to(torch.complex128)
            if not bool(((a - b).abs() <= 2 * eps * (1 + b.abs())).all()):
                msgs.append(f'path {p}: values differ by {float((a - b).abs().max()):.3g} (> precision {eps:g})')
        if c == 'P' and is_mutable(o):
            if plain_key(o) != plain_key(r):
                msgs.append(f'path {p}: plain field content changed')
    if cp:
        sst = {}
        for p, s in src_tensors:
            sst.setdefault(s.untyped_storage().data_ptr(), p)
        for p, t in res_tensors:
            q = sst.get(t.untyped_storage().data_ptr())
            if q is not None:
                msgs.append(f'copy=True: result tensor at {p} shares memory with the source tensor at {q}')
                break
        sp, rp = {}, {}
        for p, o, _ in src_paths:
            if classify(o) == 'P':
                deep_plain_ids(o, sp)
            elif classify(o) in ('Mod', 'M', 'S') and p:
                sp[id(o)] = o
        for p, (o, _) in res_by_path.items():
            if classify(o) == 'P':
                acc = {}
                deep_plain_ids(o, acc)
                if any(k in sp for k in acc):
                    msgs.append(f'copy=True: mutable plain object at {p} is shared with the source')
                    break
            elif classify(o) in ('Mod', 'M', 'S') and p and id(o) in sp:
                msgs.append(f'copy=True: container/module at {p} is the source object itself')
                break
        # aliasing classes
        first = {}
        for p, o, pc in src_paths:
            if not p or (classify(o) == 'P' and not is_mutable(o)):
                continue
            if id(o) in first:
                q, qpc = first[id(o)]
                if p in res_by_path and q in res_by_path and res_by_path[p][0] is not res_by_path[q][0]:
                    if True:
                        msgs.append(f'copy=True: fields {q} and {p} were one object ({type(o).__name__}) in the source but are two in the result')
                        break
            else:
                first[id(o)] = (p, pc)
    return msgs


def take_snapshot(g):
    """dtype, values and version of every tensor of the source (module tensors included) + keys of the plain objects"""
    snap, plains = {}, {}
    for o in g.objs:
        c = classify(o)
        for t in ([o] if c == 'T' else module_tensors(o) if c == 'Mod' else []):
            snap[id(t)] = (t.dtype, t.detach().clone(), t._version, t.untyped_storage().data_ptr(), t)  # t kept alive: no id reuse
        if c == 'P':
            plains[id(o)] = plain_key(o)
        if c in 'MS':
            plains[id(o)] = [id(v) for _, v in fields_of(o)]
        if c == 'Mod':
            plains[id(o)] = [id(t) for t in module_tensors(o)]
    return snap, plains


def source_changes(g, n0, snap, plains, strict, cp):
    msgs = []
    for o in g.objs[:n0]:
        c = classify(o)
        for t in ([o] if c == 'T' else module_tensors(o) if c == 'Mod' else []):
            if id(t) not in snap:
                msgs.append('source module got a new tensor object')
                continue
            dt, val, ver, ptr, _ = snap[id(t)]
            if t.dtype != dt or t._version != ver or t.untyped_storage().data_ptr() != ptr or not torch.equal(t.detach(), val):
                msgs.append(f'source tensor changed: {dt}->{t.dtype}, version {ver}->{t._version}' + (' (inside a module field)' if c == 'Mod' else ''))
        now = plain_key(o) if c == 'P' else [id(v) for _, v in fields_of(o)] if c in 'MS' else [id(t) for t in module_tensors(o)] if c == 'Mod' else None
        if now is not None and now != plains[id(o)]:
            msgs.append(f'source object {type(o).__name__} changed')
    return msgs


def _norm(x):
    import json
    return json.loads(json.dumps(x))


def impl(case):
    strict = case['kind'].startswith('kf_')
    root, g, rid, heap, ns0 = abstract(case)
    if case.get('heap') is not None and _norm(heap) != _norm(case['heap']):
        return {'harness_error': 'source graph is not reproducible from the seed'}
    snap, plains = take_snapshot(g)
    try:
        res = run_call(root, case['call'])
    except RecursionError:
        return {'raises': 'RecursionError'}
    n0 = len(g.objs)
    rr = g.add_from(res)
    nodes = g.snapshot()
    obs = {'canon': canon(n0, ns0, nodes, rr)}
    msgs = property_oracle(case, root, res, snap, strict)
    msgs += source_changes(g, n0, snap, plains, strict, call_cfg(case['call'])[1])
    obs['oracle'] = msgs[:5]
    return vlib.jsonable(obs)


def tens_lit(t):
    return f'(mkT {KIND_NAMES[t[0]]} {PREC_NAMES[t[1]]} {t[2]} {t[3]} {vlib.boollit(t[4])})'


def node_lit(d):
    if d[0] == 'T':
        return f'NTensor {tens_lit(d[1:])}'
    if d[0] == 'M':
        return 'NMixin [' + '; '.join(str(i) for i in d[1]) + ']'
    if d[0] == 'S':
        return 'NSpatial [' + '; '.join(str(i) for i in d[1]) + ']'
    if d[0] == 'Mod':
        return 'NModule [' + '; '.join(tens_lit(t) for t in d[1]) + ']'
    return f'NPlain {d[1]} {vlib.boollit(d[2])}'


def coq(case):
    heap = case['heap']
    return (f'encode_result (call_top {coq_call(case["call"])} [' + '; '.join(node_lit(d) for d in heap) + f'] {case["ns0"]} {case["root"]})')


def decode_model(case, m):
    """model value -> canonical form"""
    if m is None:
        return None
    r, enc = m['some']
    nodes = {}
    for i, (tag, xs) in enumerate(enc):
        if tag == 0:
            nodes[i] = ('T',) + tuple(xs)
        elif tag == 1:
            nodes[i] = ('M', list(xs))
        elif tag == 2:
            nodes[i] = ('S', list(xs))
        elif tag == 3:
            nodes[i] = ('Mod', [tuple(xs[j:j + 5]) for j in range(0, len(xs), 5)])
        else:
            nodes[i] = ('P', xs[0], xs[1])
    return canon(len(case['heap']), case['ns0'], nodes, r)


def compare(case, o, m):
    want = decode_model(case, m)
    if isinstance(o, dict) and 'harness_error' in o:
        return o['harness_error']
    if isinstance(o, dict) and 'raises' in o:
        if want is None and o['raises'] == 'RecursionError':
            return None
        return f'impl raises {o["raises"]} {o.get("msg", "")}, model gives {"an error" if want is None else "a result"}'
    if want is None:
        return 'model runs out of fuel (cyclic graph) / rejects the graph, the implementation returns a result'
    want = vlib.jsonable(want)
    got = o['canon']
    if want == got:
        return None
    for k in ('result_root', 'result', 'source_after'):
        if want[k] != got[k]:
            if isinstance(want[k], list):
                for i, (a, b) in enumerate(zip(want[k], got[k])):
                    if a != b:
                        return f'{k}[{i}]: model {a} impl {b}'
                return f'{k}: lengths {len(want[k])} vs {len(got[k])}'
            return f'{k}: model {want[k]} impl {got[k]}'
    return 'differ'


def oracle(case, o):
    if isinstance(o, dict) and o.get('oracle'):
        return f'{case["kind"]} {case["call"]}: ' + '; '.join(o['oracle'][:3])
    return None


def finish(case):
    """attach the abstract source graph (replayable: it is recomputed from the seed and compared)"""
    _, g, rid, heap, ns0 = abstract(case)
    case['heap'] = _norm(heap)
    case['ns0'] = ns0
    case['root'] = rid
    return case


def has_sharing(case):
    cnt = {}
    for d in case['heap']:
        if d[0] in 'MS':
            for c in d[1]:
                cnt[c] = cnt.get(c, 0) + 1
    sids = [d[3] for d in case['heap'] if d[0] == 'T']
    return any(v > 1 for v in cnt.values()) or len(set(sids)) < len(sids)


def nontrivial(case):
    dt, cp = call_cfg(case['call'])
    return has_sharing(case) or cp or dt is not None


def gen_synthetic(rng, tier):
    n = 150 if tier == 'quick' else 4000
    return [finish({'kind': 'synthetic', 'seed': rng.randrange(10 ** 9), 'call': rand_call(rng)}) for _ in range(n)]


def gen_containers(rng, tier):
    n = 110 if tier == 'quick' else 2500
    cases = []
    for i in range(n):
        kind = CONTAINER_KINDS[i % len(CONTAINER_KINDS)] if i < 2 * len(CONTAINER_KINDS) else rng.choice(CONTAINER_KINDS)
        cases.append(finish({'kind': kind, 'seed': rng.randrange(10 ** 9), 'n_inject': rng.choice([0, 1, 2, 3, 4]),
                             'spatial_leaf': rng.random() < 0.3, 'call': rand_call(rng)}))
    return cases


def gen_all_calls(rng, tier):
    """every overload x dtype x copy on one aliased KData and one synthetic graph"""
    calls = []
    for cp in (False, True):
        for fn in ('to_device', 'to_dtype', 'to_tensor'):
            for dt in FDT + ([None] if fn == 'to_device' else []):
                for style in ((0, 1, 2) if tier != 'quick' else (0,)):
                    calls.append({'fn': fn, 'dtype': dt, 'style': style, 'copy': cp})
        for fn in ('cpu', 'double', 'single', 'half'):
            calls.append({'fn': fn, 'copy': cp})
    calls += [{'fn': 'clone'}, {'fn': 'apply_none'}, {'fn': 'apply_identity'}]
    cases = []
    for rep in range(1 if tier == 'quick' else 6):
        s1, s2 = rng.randrange(10 ** 9), rng.randrange(10 ** 9)
        for c in calls:
            cases.append(finish({'kind': 'kdata', 'seed': s1, 'n_inject': 3, 'spatial_leaf': False, 'call': dict(c)}))
            if tier != 'quick' or c['fn'] != 'to_tensor':
                cases.append(finish({'kind': 'synthetic', 'seed': s2, 'call': dict(c)}))
    return cases


def gen_kf_spatial(rng, tier):
    return [finish({'kind': 'kf_spatial', 'seed': 2 * i + j, 'call': c}) for i in range(2 if tier == 'quick' else 10) for j in (0, 1)
            for c in ({'fn': 'clone'}, {'fn': 'to_dtype', 'dtype': 'f64', 'style': 0, 'copy': True})]


def gen_plain_ref(rng, tier):
    return [finish({'kind': 'plain_ref', 'seed': i, 'call': c}) for i in range(4 if tier == 'quick' else 16)
            for c in ({'fn': 'clone'}, {'fn': 'to_dtype', 'dtype': 'f64', 'style': 0, 'copy': True}, {'fn': 'double', 'copy': True},
                      {'fn': 'to_dtype', 'dtype': 'f64', 'style': 0, 'copy': False})]


def gen_kf_module(rng, tier):
    return [finish({'kind': 'kf_module', 'seed': 2 * i + j, 'call': c}) for i in range(2 if tier == 'quick' else 10) for j in (0, 1)
            for c in ({'fn': 'single', 'copy': False}, {'fn': 'to_dtype', 'dtype': 'f16', 'style': 0, 'copy': False})]


def gen_kf_kw(rng, tier):
    return [finish({'kind': k, 'seed': i, 'n_inject': 0, 'call': {'fn': 'to_tensor', 'dtype': dt, 'style': 0, 'kw': True, 'copy': cp}})
            for i, (k, dt, cp) in enumerate([('ktraj', 'f64', False), ('dcf', 'f32', True), ('spatial', 'c64', False)])]


def oracle_kw(case, o):
    if isinstance(o, dict) and 'raises' in o:
        return f'{case["kind"]}.to(tensor=<{case["call"]["dtype"]} tensor>) (overload 3 with its documented keyword) raises {o["raises"]}: {o.get("msg", "")[:120]}'
    return oracle(case, o)


def descr(case):
    return {'kind': case['kind'], 'fn': case['call']['fn'], 'copy': call_cfg(case['call'])[1], 'dtype': call_cfg(case['call'])[0]}


FAMILIES = [
    Family('graph_synthetic', gen_synthetic, impl, coq, PREAMBLE, compare, oracle, nontrivial=nontrivial, descr=descr, shard=60,
           theorem='C18_kind, C18_values, C18_alias, C18_fresh, C18_source_untouched'),
    Family('containers', gen_containers, impl, coq, PREAMBLE, compare, oracle, nontrivial=nontrivial, descr=descr, shard=40,
           theorem='C18_kind, C18_values, C18_alias, C18_fresh, C18_source_untouched'),
    Family('all_overloads', gen_all_calls, impl, coq, PREAMBLE, compare, oracle, nontrivial=nontrivial, descr=descr, shard=40,
           theorem='C18_kind (all parsers of to())'),
    # regression families for the repaired findings KF-C18-1..3 (also in corpus/C18/*.json)
    Family('plain_container_reference', gen_plain_ref, impl, coq, PREAMBLE, compare, oracle, descr=descr, shard=40,
           theorem='C18_kind, C18_requested_prec, C18_fresh (the field itself; what a plain dict / list holds is outside the model)'),
    Family('spatial_alias', gen_kf_spatial, impl, coq, PREAMBLE, compare, oracle, descr=descr, shard=40,
           theorem='C18_alias (through SpatialDimension components)'),
    Family('module_nocopy', gen_kf_module, impl, coq, PREAMBLE, compare, oracle, descr=descr, shard=40,
           theorem='C18_source_untouched, C18_module_fresh'),
    Family('to_tensor_keyword', gen_kf_kw, impl, coq, PREAMBLE, compare, oracle_kw, descr=descr, shard=40, theorem='C18_kind (parser 3)'),
]


# ---- added after seeded change C18-2: apply(f) with an in-place or view-returning f never touches the source ----------------
def _gen_apply_inplace(rng, tier):
    out = []
    for i in range(12 if tier == 'quick' else 160):
        out.append({'container': ['spatial', 'ktraj', 'dcf', 'nested'][i % 4], 'fn': ['mul_', 'clamp_', 'identity', 'view', 'none'][(i // 4) % 5],
                    'seed': rng.randrange(10 ** 6)})
    return out


def _impl_apply_inplace(c):
    import torch
    from mrpro.data import DcfData, KTrajectory, SpatialDimension
    g = torch.Generator().manual_seed(c['seed'])

    def t(*shape):
        return torch.randint(-4, 5, shape, generator=g).to(torch.float64)
    if c['container'] == 'spatial':
        obj = SpatialDimension(t(2, 3), t(2, 3), t(2, 3))
    elif c['container'] == 'ktraj':
        obj = KTrajectory(t(1, 1, 1, 1), t(1, 1, 3, 1), t(1, 1, 1, 4))
    elif c['container'] == 'dcf':
        obj = DcfData(data=t(1, 2, 3, 4))
    else:
        import dataclasses
        from mrpro.data.MoveDataMixin import MoveDataMixin

        @dataclasses.dataclass
        class Box(MoveDataMixin):
            pos: SpatialDimension
            w: torch.Tensor
        obj = Box(SpatialDimension(t(2), t(2), t(2)), t(3))
    src_tensors = []

    def collect(o):
        for _, v in o._items():
            if isinstance(v, torch.Tensor):
                src_tensors.append(v)
            elif hasattr(v, '_items'):
                collect(v)
    collect(obj)
    before = [(x.clone(), x._version, x.data_ptr()) for x in src_tensors]
    fn = {'mul_': lambda x: x.mul_(2) if isinstance(x, torch.Tensor) else x, 'clamp_': lambda x: x.clamp_(min=0) if isinstance(x, torch.Tensor) else x,
          'identity': lambda x: x, 'view': lambda x: x.view(x.shape) if isinstance(x, torch.Tensor) else x, 'none': None}[c['fn']]
    res = obj.apply(fn)
    changed = any(not torch.equal(x, b[0]) or x._version != b[1] for x, b in zip(src_tensors, before))
    res_tensors = []

    def collect2(o):
        for _, v in o._items():
            if isinstance(v, torch.Tensor):
                res_tensors.append(v)
            elif hasattr(v, '_items'):
                collect2(v)
    collect2(res)
    src_ptrs = {b[2] for b in before}
    shares = any(x.data_ptr() in src_ptrs for x in res_tensors)
    # the result holds f(copy of the source values)
    exp = [b[0].clone() for b in before]
    exp = [e.mul(2) if c['fn'] == 'mul_' else e.clamp(min=0) if c['fn'] == 'clamp_' else e for e in exp]
    values_ok = len(exp) == len(res_tensors) and all(torch.equal(a, b) for a, b in zip(exp, res_tensors))
    return {'source_changed': changed, 'shares_memory': shares, 'values_ok': values_ok}


def _oracle_apply_inplace(c, o):
    if isinstance(o, dict) and 'raises' in o:
        return f'apply({c["fn"]}) on {c["container"]} raised {o}'
    if o['source_changed']:
        return f'{c["container"]}.apply({c["fn"]}) modified the source object'
    if o['shares_memory']:
        return f'the result of {c["container"]}.apply({c["fn"]}) shares memory with the source'
    if not o['values_ok']:
        return f'{c["container"]}.apply({c["fn"]}) does not hold the function applied to the source values'
    return None


FAMILIES.append(Family('apply_inplace_function', _gen_apply_inplace, _impl_apply_inplace, None, '', None, _oracle_apply_inplace,
                       theorem='C18_source_untouched, C18_fresh (apply = clone then apply_)'))
