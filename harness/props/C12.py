"""C12 - Rotation agrees with scipy.spatial.transform.Rotation (three-way: implementation / Coq model / scipy)."""
import math

import numpy as np
import torch

import vlib
from vlib import Family, zlit
from props import C13 as base

LEVEL = 'proof'
RULE = ('exact family: proper rotations from Pythagorean-quadruple unit quaternions (optionally scaled = non-normalised input) and Euler angles '
        'whose half-angle sines/cosines are rational (t = 2 atan2(s,c), (s,c) = (2m, 1-m^2)/(1+m^2)): implementation (float64) vs Coq model on Qc '
        'at 1e-12 and vs scipy at 1e-9 (matrices, so q ~ -q is removed); scipy family: every shared operation on generic, near-identity (1e-8), '
        'near-pi, gimbal-locked, non-normalised and nearly-orthogonal inputs, all 24 Euler sequences (12 letter triples x intrinsic/extrinsic, '
        'letters mapped x<->z) in radians and degrees, 1-2 axis sequences, single and batched. Non-trivial = rotation angle not 0; distinct by case hash.')
TRUSTED_BASE = ['scipy.spatial.transform.Rotation (the reference) as installed in /venv',
                'translator harness/translate/rotation.py (shared with C13)',
                'letter map x<->z between mrpro axis names and scipy axis names (mrpro vectors are (z,y,x))']
ASSUMPTIONS = ['as_euler, mean, align_vectors, rotvec end points and from_matrix on non-orthogonal input are decided by comparison with scipy only (no theorem)']
PREAMBLE = base.PREAMBLE + '''
Definition euler_obs (intrinsic : bool) (axes : list nat) (scs : list (Qc * Qc)) :=
  (qm (qmat QcRing (from_euler_sc QcRing intrinsic axes scs)), qz (qnorm2 QcRing (from_euler_sc QcRing intrinsic axes scs))).
Definition exact_obs (p q : rot QcRing) (v : vec3 QcRing) :=
  (NM p, NM (rcompose _ p q), NM (rinv _ p), qv (mapply _ (nmatQ p) v), qv (mapply _ (mtrans _ (nmatQ p)) v), NM (rpow _ 2 p), NM (rpow _ (-3) p)).
'''
LETTER = {'x': 'z', 'y': 'y', 'z': 'x', 'X': 'Z', 'Y': 'Y', 'Z': 'X'}
AXIS_INDEX = {'z': 0, 'y': 1, 'x': 2}    # stored component of mrpro's axis letter
SEQS3 = [a + b + c for a in 'xyz' for b in 'xyz' for c in 'xyz' if a != b and b != c]


def smap(seq):
    return ''.join(LETTER[ch] for ch in seq)


def translate(ctx):
    base.translate(ctx)


def S():
    from scipy.spatial.transform import Rotation
    return Rotation


def M():
    from mrpro.data import Rotation
    return Rotation


def t64(x):
    return torch.tensor(x, dtype=torch.float64)


def mat(r):
    return np.asarray(r.as_matrix().detach().numpy() if hasattr(r.as_matrix(), 'detach') else r.as_matrix(), dtype=float)


def maxdiff(a, b):
    a, b = np.asarray(a, dtype=float), np.asarray(b, dtype=float)
    if a.shape != b.shape:
        return float('inf')
    if not (np.all(np.isfinite(a)) and np.all(np.isfinite(b))):
        return float('inf')
    return float(np.max(np.abs(a - b))) if a.size else 0.0


# ------------------------------------------------------------------------------------------------ exact three-way family
def gen_exact(rng, tier):
    cases = []
    for _ in range(40 if tier == 'quick' else 800):
        scale = rng.random() < 0.3
        cases.append({'kind': 'quat', 'p': base.rand_rot(rng, improper=False, scale=scale), 'q': base.rand_rot(rng, improper=False),
                      'v': [rng.randint(-6, 6) for _ in range(3)]})
    ms = [(0, 1), (1, 1), (1, 2), (1, 3), (2, 3), (-1, 2), (3, 4), (-2, 5), (1, 5), (4, 1), (-3, 1), (1, 7)]
    seqs = [s for s in SEQS3] + ['x', 'y', 'z', 'xy', 'zx', 'yz', 'zy']
    for seq in (seqs if tier == 'quick' else seqs * 6):
        for intrinsic in (False, True):
            scs = []
            for _ in seq:
                a, b = rng.choice(ms)
                d = a * a + b * b
                scs.append([2 * a * b, b * b - a * a, d])     # sin(t/2), cos(t/2) = 2ab/d, (b^2-a^2)/d
            cases.append({'kind': 'euler', 'seq': seq.upper() if intrinsic else seq, 'scs': scs, 'degrees': rng.random() < 0.5})
    return cases


def impl_exact(c):
    if c['kind'] == 'quat':
        p, q = base.rot_torch([c['p']]), base.rot_torch([c['q']])
        v = t64(c['v'])
        sp = S().from_quat([x / c['p']['n'] for x in c['p']['q']])
        sq = S().from_quat([x / c['q']['n'] for x in c['q']['q']])
        vn = np.array(c['v'], dtype=float)
        return {'impl': [mat(p).reshape(-1).tolist(), mat(p @ q).reshape(-1).tolist(), mat(p.inv()).reshape(-1).tolist(), p(v).tolist(),
                         p(v, inverse=True).tolist(), mat(p ** 2).reshape(-1).tolist(), mat(p ** -3).reshape(-1).tolist()],
                'scipy': [sp.as_matrix().reshape(-1).tolist(), (sp * sq).as_matrix().reshape(-1).tolist(), sp.inv().as_matrix().reshape(-1).tolist(),
                          sp.apply(vn).tolist(), sp.apply(vn, inverse=True).tolist(), (sp ** 2).as_matrix().reshape(-1).tolist(),
                          (sp ** -3).as_matrix().reshape(-1).tolist()]}
    angles = [2 * math.atan2(s, co) for s, co, d in c['scs']]
    if c['degrees']:
        angles = [math.degrees(a) for a in angles]
    r = M().from_euler(c['seq'], t64(angles), degrees=c['degrees'])
    s = S().from_euler(smap(c['seq']), angles, degrees=c['degrees'])
    return {'impl': mat(r).reshape(-1).tolist(), 'scipy': s.as_matrix().reshape(-1).tolist(), 'single': bool(r.single),
            'norm': float(torch.linalg.vector_norm(r.as_quat()))}


def coq_exact(c):
    if c['kind'] == 'quat':
        v = c['v']
        return f'exact_obs {base.rot_coq(c["p"])} {base.rot_coq(c["q"])} (qcq {zlit(v[0])} 1, qcq {zlit(v[1])} 1, qcq {zlit(v[2])} 1)'
    intrinsic = c['seq'].isupper()
    axes = vlib.natlist([AXIS_INDEX[ch] for ch in c['seq'].lower()])
    scs = '[' + '; '.join(f'(qcq {zlit(s)} {d}, qcq {zlit(co)} {d})' for s, co, d in c['scs']) + ']'
    return f'euler_obs {vlib.boollit(intrinsic)} {axes} {scs}'


def cmp_exact(c, o, m):
    if isinstance(o, dict) and 'raises' in o:
        return f'implementation raises {o}'
    if c['kind'] == 'quat':
        names = ['as_matrix', 'compose', 'inv', 'apply', 'apply inverse', 'p**2', 'p**-3']
        for name, a, b in zip(names, o['impl'], m):
            e = base.close(a, list(b))
            if e:
                return f'{name}: implementation vs model: {e}'
        return None
    Mq, n2 = m
    if base.frac(n2) != 1.0:
        return 'model: from_euler is not a unit quaternion'
    e = base.close(o['impl'], Mq)
    return f'from_euler({c["seq"]}): implementation vs model: {e}' if e else None


def oracle_exact(c, o):
    if isinstance(o, dict) and 'raises' in o:
        return f'valid input raises {o["raises"]}: {o.get("msg")}'
    if c['kind'] == 'quat':
        names = ['as_matrix', 'p*q', 'inv', 'apply', 'apply(inverse)', 'p**2', 'p**-3']
        for name, a, b in zip(names, o['impl'], o['scipy']):
            if maxdiff(a, b) > 1e-9:
                return f'{name} differs from scipy by {maxdiff(a, b):.2e}'
        return None
    if maxdiff(o['impl'], o['scipy']) > 1e-9:
        return f'from_euler({c["seq"]!r}, degrees={c["degrees"]}) differs from scipy from_euler({smap(c["seq"])!r}) by {maxdiff(o["impl"], o["scipy"]):.2e}'
    if not o['single'] or abs(o['norm'] - 1) > 1e-12:
        return 'from_euler of one angle triple is not a single unit rotation'
    return None


# ------------------------------------------------------------------------------------------------ scipy family
def _rand_quats(rng, kind, n):
    out = []
    for _ in range(n):
        if kind == 'generic':
            q = [rng.gauss(0, 1) for _ in range(4)]
        elif kind == 'unnormalised':
            k = rng.choice([0.01, 3.0, 250.0])
            q = [k * rng.gauss(0, 1) for _ in range(4)]
        elif kind == 'near_identity':
            ax = [rng.gauss(0, 1) for _ in range(3)]
            na = math.sqrt(sum(x * x for x in ax))
            a = rng.choice([1e-8, 1e-6, 0.0, 1e-12])
            q = [math.sin(a / 2) * x / na for x in ax] + [math.cos(a / 2)]
        elif kind == 'near_pi':
            ax = [rng.gauss(0, 1) for _ in range(3)]
            na = math.sqrt(sum(x * x for x in ax))
            a = math.pi - rng.choice([0.0, 1e-8, 1e-6, -1e-8, 1e-3])
            q = [math.sin(a / 2) * x / na for x in ax] + [math.cos(a / 2)]
        else:  # axis aligned / quarter turns (w = 0 or equal components: canonical sign and argmax ties)
            q = rng.choice([[1, 0, 0, 0], [0, 1, 0, 0], [0, 0, 1, 0], [1, 1, 0, 0], [1, 0, 0, 1], [0, 1, 0, -1], [0.5, 0.5, 0.5, 0.5],
                            [-0.5, 0.5, -0.5, 0.5], [0, 0, 0, -1], [0, -1, 1, 0]])
            q = [float(x) for x in q]
        out.append(q)
    return out


KINDS = ['generic', 'generic', 'unnormalised', 'near_identity', 'near_pi', 'aligned']


def gen_scipy(rng, tier):
    cases = []
    reps = 1 if tier == 'quick' else 12
    for _ in range(reps):
        # every 3-letter sequence x intrinsic/extrinsic x degrees, generic + gimbal locked
        for seq in SEQS3:
            for intrinsic in (False, True):
                s = seq.upper() if intrinsic else seq
                sym = seq[0] == seq[2]
                lock = rng.choice([0.0, math.pi]) if sym else rng.choice([math.pi / 2, -math.pi / 2])
                lockd = {0.0: 0.0, math.pi: 180.0, math.pi / 2: 90.0, -math.pi / 2: -90.0}[lock]
                deg = rng.random() < 0.5
                gen_angles = [rng.uniform(-3.1, 3.1), rng.uniform(0.05, 3.0) if sym else rng.uniform(-1.5, 1.5), rng.uniform(-3.1, 3.1)]
                lock_angles = [rng.uniform(-3, 3), lock, rng.uniform(-3, 3)]
                if deg:
                    gen_angles = [math.degrees(a) for a in gen_angles]
                    lock_angles = [math.degrees(lock_angles[0]), lockd, math.degrees(lock_angles[2])]
                cases.append({'op': 'euler', 'seq': s, 'degrees': deg, 'angles': [gen_angles], 'single': rng.random() < 0.5, 'gimbal': False})
                cases.append({'op': 'euler', 'seq': s, 'degrees': deg, 'angles': [lock_angles, gen_angles], 'single': False, 'gimbal': True})
        # second angle at the values that are singular for the OTHER class of sequences (exactly 90 deg for A-B-A, exactly 0 / 45 deg for A-B-C):
        # regular configurations that a misplaced gimbal-lock test would treat as singular (added after round-2 seeded change C12-b2)
        for seq in SEQS3:
            for intrinsic in (False, True):
                s = seq.upper() if intrinsic else seq
                sym = seq[0] == seq[2]
                for special in ((90.0, -90.0 + 180.0) if sym else (0.0, 45.0)):
                    deg = rng.random() < 0.5
                    ang = [rng.choice([30.0, -75.0, 160.0]), special, rng.choice([45.0, -120.0, 10.0])]
                    if not deg:
                        ang = [math.radians(a) for a in ang]
                    cases.append({'op': 'euler', 'seq': s, 'degrees': deg, 'angles': [ang], 'single': rng.random() < 0.5, 'gimbal': False})
        # float32 rotations whose second angle is 3e-5 .. 2e-4 rad away from gimbal lock: regular for the code's threshold (1e-7), so the third
        # angle must not be discarded (added after round-5 seeded change C12-e2: a dtype-dependent threshold)
        for k, seq in enumerate(SEQS3):
            intrinsic = k % 2 == 0
            s = seq.upper() if intrinsic else seq
            sym = seq[0] == seq[2]
            delta = [1e-4, 2e-4, 3e-5][k % 3]
            second = (delta if k % 4 < 2 else math.pi - delta) if sym else (math.pi / 2 - delta if k % 4 < 2 else -math.pi / 2 + delta)
            cases.append({'op': 'euler', 'seq': s, 'degrees': False, 'angles': [[rng.uniform(-3, 3), second, rng.uniform(-3, 3)]], 'single': True,
                          'gimbal': True, 'f32': True})
        # integer angles (python ints / an int64 tensor): scipy accepts them (before repair of from_euler the result was the zero quaternion)
        for seq, ang in (('xyz', [1, 2, 3]), ('ZXZ', [3, 1, -2]), ('yx', [2, -1]), ('X', [4])):
            cases.append({'op': 'euler_short', 'seq': seq, 'degrees': False, 'angles': [ang], 'single': True, 'int_angles': True})
            cases.append({'op': 'euler_short', 'seq': seq, 'degrees': True, 'angles': [[30 * a for a in ang]], 'single': True, 'int_angles': True})
        for seq in ['x', 'y', 'z', 'xy', 'yx', 'zy', 'xz', 'ZX', 'YZ', 'Z']:
            n = len(seq)
            cases.append({'op': 'euler_short', 'seq': seq, 'degrees': rng.random() < 0.5,
                          'angles': [[rng.uniform(-3, 3) for _ in range(n)] for _ in range(rng.choice([1, 3]))], 'single': rng.random() < 0.4})
        for kind in KINDS:
            for op in ['quat', 'matrix', 'rotvec', 'as_euler', 'apply', 'compose', 'pow', 'magnitude']:
                n = rng.choice([1, 1, 3, 5])
                c = {'op': op, 'kind': kind, 'q': _rand_quats(rng, kind, n), 'single': n == 1 and rng.random() < 0.6}
                if op == 'as_euler':
                    c['seq'] = rng.choice(SEQS3)
                    c['seq'] = c['seq'].upper() if rng.random() < 0.5 else c['seq']
                    c['degrees'] = rng.random() < 0.5
                if op == 'rotvec':
                    c['degrees'] = rng.random() < 0.5
                if op == 'apply':
                    c['v'] = [[rng.randint(-5, 5) / 2 for _ in range(3)] for _ in range(n)]
                    c['inverse'] = rng.random() < 0.5
                if op == 'compose':
                    c['q2'] = _rand_quats(rng, rng.choice(KINDS), n)
                if op == 'pow':
                    c['n'] = rng.choice([-5, -4, -3, -2, -1, 0, 1, 2, 3, 4, 5, 0.5, 2.5, -1.5])
                if op == 'matrix':
                    c['perturb'] = rng.choice([0.0, 0.0, 1e-9])
                    c['noise'] = [[rng.uniform(-1, 1) for _ in range(9)] for _ in range(n)]
                cases.append(c)
        # quaternions stored with negative w (the long way round): canonical rotation vectors, fractional powers, magnitude
        for nq, pw in (([[0.6, 0.0, 0.0, -0.8]], 0.5), ([[0.1, -0.7, 0.1, -0.7]], 2.5), ([[0.5, 0.5, 0.5, -0.5], [0.0, 0.6, 0.0, -0.8]], -1.5),
                       ([[0.28, 0.0, 0.96, -0.0]], 0.5)):
            for op in ('rotvec', 'pow', 'magnitude'):
                c = {'op': op, 'kind': 'negative_w', 'q': nq, 'single': len(nq) == 1}
                if op == 'rotvec':
                    c['degrees'] = False
                if op == 'pow':
                    c['n'] = pw
                cases.append(c)
        for _k in range(3):
            seq = rng.choice([x for x in SEQS3 if x[0] != x[2]])
            seq = seq.upper() if rng.random() < 0.5 else seq
            a, b = rng.uniform(-3, 3), rng.uniform(-3, 3)
            qs = S().from_euler(smap(seq), [a, 0.0, b]).as_quat().tolist()
            cases.append({'op': 'as_euler_mid0', 'kind': 'mid0', 'seq': seq, 'degrees': False, 'q': [qs], 'single': True})
        for _k in range(4):
            n = rng.choice([2, 3, 6])
            spread = rng.choice([0.05, 0.5])
            base_q = _rand_quats(rng, 'generic', 1)[0]
            qs = [[b + spread * rng.gauss(0, 1) for b in base_q] for _ in range(n)]
            cases.append({'op': 'mean', 'q': qs, 'weights': rng.choice([None, [rng.randint(1, 4) / 2 for _ in range(n)]]), 'single': False})
        for _k in range(6):
            n = rng.choice([1, 2, 3, 5])
            rq = _rand_quats(rng, 'generic', 1)[0]
            b = [[rng.uniform(-2, 2) for _ in range(3)] for _ in range(n)]
            noise = rng.choice([0.0, 0.05])
            w = rng.choice([None, [rng.randint(1, 4) / 2 for _ in range(n)], 'inf'])
            if w == 'inf':
                w = [float('inf')] + [1.0] * (n - 1) if n > 1 else None
            cases.append({'op': 'align', 'rq': rq, 'b': b, 'noise': [[noise * rng.gauss(0, 1) for _ in range(3)] for _ in range(n)],
                          'weights': None if w is None else [('inf' if math.isinf(x) else x) for x in w], 'single': True})
        # float64 tensor weights with exactly one infinite weight (exact alignment of that pair) at a random position, noisy secondaries
        for _k in range(4):
            n = rng.choice([2, 3, 4, 6])
            rq = _rand_quats(rng, 'generic', 1)[0]
            b = [[rng.uniform(-2, 2) for _ in range(3)] for _ in range(n)]
            w = [rng.randint(1, 4) / 2 for _ in range(n)]
            w[rng.randrange(n)] = 'inf'
            noise = rng.choice([0.05, 0.3])
            cases.append({'op': 'align', 'rq': rq, 'b': b, 'noise': [[noise * rng.gauss(0, 1) for _ in range(3)] for _ in range(n)],
                          'weights': w, 'single': True})
        # antiparallel primary pair (a_0 = -b_0): a single pair, and an infinite weight on it (before the repair: improper -identity)
        for b0 in ([1.0, 0.0, 0.0], [0.0, 0.0, 2.0], [1.0, 2.0, -2.0], [0.25, -0.5, 0.75]):
            cases.append({'op': 'align', 'rq': [0.0, 0.0, 0.0, 1.0], 'b': [b0], 'noise': [[0.0, 0.0, 0.0]], 'weights': None, 'single': True, 'antiparallel': True})
            cases.append({'op': 'align', 'rq': [0.0, 0.0, 0.0, 1.0], 'b': [b0, [0.5, 1.0, 0.25], [-1.0, 0.5, 0.0]], 'noise': [[0.0] * 3, [0.05, 0.0, 0.02], [0.0, -0.03, 0.01]],
                          'weights': ['inf', 1.0, 2.0], 'single': True, 'antiparallel': True})
    return cases


def _mk(c, key='q'):
    q = np.array(c[key], dtype=float)
    if c.get('single') and len(q) == 1:
        return M().from_quat(t64(q[0])), S().from_quat(q[0])
    return M().from_quat(t64(q)), S().from_quat(q)


def _mid0(seq, s):
    """elements for which the sequence has three different axes and the second Euler angle is (numerically) zero (the input class of the repaired defect 09a2fb1; kept as regression cases, op as_euler_mid0)"""
    if seq[0].lower() == seq[2].lower():
        return np.zeros(len(np.atleast_2d(s.as_quat())), dtype=bool)
    e = np.atleast_2d(s.as_euler(smap(seq)))
    return np.abs(e[:, 1]) < 1e-6


def impl_scipy(c):
    """returns pairs (implementation value, scipy value) as flat lists, each with a label and a tolerance class"""
    op = c['op']
    out = []

    def add(label, a, b, tol=1e-9):
        out.append([label, np.asarray(a, dtype=float).tolist(), np.asarray(b, dtype=float).tolist(), tol])
    if op in ('euler', 'euler_short'):
        ang = c['angles'][0] if c['single'] else c['angles']
        if c.get('int_angles'):
            r = M().from_euler(c['seq'], ang if len(ang) % 2 else torch.tensor(ang), degrees=c['degrees'])     # a list of python ints / an int64 tensor
        else:
            r = M().from_euler(c['seq'], t64(ang).to(torch.float32) if c.get('f32') else t64(ang), degrees=c['degrees'])
        s = S().from_euler(smap(c['seq']), ang, degrees=c['degrees'])
        add('from_euler matrix', mat(r), s.as_matrix(), 2e-6 if (c.get('f32') or c.get('int_angles')) else 1e-9)     # float32 angles: rounding of the input itself
        add('single', [float(r.single)], [float(s.single)])
        if op == 'euler':
            back = r.as_euler(c['seq'], degrees=c['degrees'])
            sb = s.as_euler(smap(c['seq']), degrees=c['degrees'])
            r2 = M().from_euler(c['seq'], back, degrees=c['degrees'])
            rt_tol = 2e-5 if c.get('f32') else 2e-6
            add('from_euler(as_euler) round trip', mat(r2), mat(r), rt_tol)     # as_euler: 1e-7 gimbal threshold, and the +-2pi wrap is added in float32 (1.7e-7)
            add('as_euler angles represent the scipy rotation', S().from_euler(smap(c['seq']), back.numpy(), degrees=c['degrees']).as_matrix(), s.as_matrix(), rt_tol)
            if not c['gimbal']:
                u = 180.0 if c['degrees'] else math.pi
                d = np.abs(np.asarray(back.numpy()) - np.asarray(sb))
                d = np.minimum(d, np.abs(d - 2 * u))
                add('as_euler angles vs scipy (mod 2pi)', d / u, np.zeros_like(d), 1e-6)
        return out
    if op == 'align':
        rq = S().from_quat(c['rq'])
        b = np.array(c['b'], dtype=float)
        a = rq.apply(b) + np.array(c['noise'], dtype=float)
        if c.get('antiparallel'):
            a[0] = -b[0]
        w = None if c['weights'] is None else np.array([float('inf') if x == 'inf' else x for x in c['weights']], dtype=float)
        rs, rssd_s = S().align_vectors(a, b, weights=w)
        # the same float64 tensors are used for two consecutive calls: every call has to agree with scipy and must leave its inputs alone
        ta, tb, tw = t64(a), t64(b), (None if w is None else t64(w))
        before = [(x.clone(), x._version) for x in (ta, tb, tw) if x is not None]
        for call in (1, 2):
            rm, rssd_m = M().align_vectors(ta, tb, weights=tw)
            add(f'align_vectors matrix (call {call} with the same tensors)', mat(rm), rs.as_matrix(), 1e-7)
        for name, x, (x0, v0) in zip(('a', 'b', 'weights'), [y for y in (ta, tb, tw) if y is not None], before):
            add(f'align_vectors leaves its input `{name}` unchanged (values)', [float(torch.equal(x, x0))], [1.0])
            add(f'align_vectors does not write into its input `{name}` (tensor version counter)', [float(x._version)], [float(v0)])
        # rssd is not part of 'the same rotation' (and differs from scipy for a single vector pair: mrpro returns 0): not compared
        return out
    if op == 'mean':
        r, s = _mk(c)
        w = c['weights']
        add('mean', mat(r.mean(weights=None if w is None else t64(w))), s.mean(weights=w).as_matrix(), 1e-8)
        return out
    r, s = _mk(c)
    add('as_matrix', mat(r), s.as_matrix())
    if op == 'quat':
        qm_, qs_ = r.as_quat(canonical=True).numpy(), s.as_quat(canonical=True)
        sgn = np.sign(np.sum(np.atleast_2d(qm_) * np.atleast_2d(qs_), axis=-1, keepdims=True))   # q ~ -q (differs from scipy only when w = 0)
        add('as_quat(canonical) up to sign', np.atleast_2d(qm_) * sgn, np.atleast_2d(qs_))
        add('as_quat(canonical) has w >= 0', np.minimum(np.atleast_2d(qm_)[:, 3], 0.0), np.zeros(len(np.atleast_2d(qm_))))
        add('from_quat(as_quat) round trip', mat(M().from_quat(r.as_quat())), mat(r))
        add('inv', mat(r.inv()), s.inv().as_matrix())
    elif op == 'matrix':
        m0 = s.as_matrix()
        mp = m0 + c['perturb'] * np.array(c['noise'], dtype=float).reshape(m0.shape)
        r2 = M().from_matrix(t64(mp))
        s2 = S().from_matrix(mp)
        add('from_matrix', mat(r2), s2.as_matrix(), 1e-7 if c['perturb'] else 1e-9)
        add('from_matrix(as_matrix) round trip', mat(M().from_matrix(r.as_matrix())), mat(r))
        add('from_matrix quaternion is unit', np.linalg.norm(np.atleast_2d(r2.as_quat().numpy()), axis=-1), np.ones(len(np.atleast_2d(r2.as_quat().numpy()))))
        add('proper', r2.is_improper.reshape(-1).numpy().astype(float), np.zeros(len(np.atleast_2d(mp).reshape(-1, 9))))
    elif op == 'rotvec':
        rv, sv = r.as_rotvec(degrees=c['degrees']).numpy(), s.as_rotvec(degrees=c['degrees'])
        near_pi = c['kind'] in ('near_pi', 'aligned')
        if not near_pi:
            add('as_rotvec', rv / (180 / math.pi if c['degrees'] else 1), sv / (180 / math.pi if c['degrees'] else 1))
        add('from_rotvec(as_rotvec) round trip', mat(M().from_rotvec(t64(rv), degrees=c['degrees'])), mat(r))
        add('from_rotvec vs scipy', mat(M().from_rotvec(t64(sv), degrees=c['degrees'])), S().from_rotvec(sv, degrees=c['degrees']).as_matrix())
    elif op == 'as_euler_mid0':
        e = r.as_euler(c['seq'], degrees=c['degrees'])
        add('from_euler(as_euler) round trip (second angle 0, three different axes)', mat(M().from_euler(c['seq'], e, degrees=c['degrees'])), mat(r), 2e-6)
    elif op == 'as_euler':
        e = r.as_euler(c['seq'], degrees=c['degrees'])
        add('from_euler(as_euler) round trip', mat(M().from_euler(c['seq'], e, degrees=c['degrees'])), mat(r), 2e-6)
        add('as_euler angles represent the scipy rotation', S().from_euler(smap(c['seq']), e.numpy(), degrees=c['degrees']).as_matrix(), s.as_matrix(), 2e-6)
        add('shape', list(e.shape), list(np.shape(s.as_euler(smap(c['seq'])))))
    elif op == 'apply':
        v = np.array(c['v'], dtype=float)
        vv = v[0] if c.get('single') and len(v) == 1 else v
        add('apply', r(t64(vv), inverse=c['inverse']).numpy(), s.apply(vv, inverse=c['inverse']))
    elif op == 'compose':
        r2, s2 = _mk(c, 'q2')
        add('compose', mat(r @ r2), (s * s2).as_matrix())
        add('approx_equal', (r @ r2).approx_equal(M().from_matrix(t64((s * s2).as_matrix()))).reshape(-1).numpy().astype(float),
            np.ones(len(np.atleast_2d(np.asarray(c['q'])))))
    elif op == 'pow':
        n = c['n']
        tol = 1e-9
        if c['kind'] in ('near_pi', 'aligned') and float(n) != int(n):
            return out   # fractional powers of half turns: the axis sign of the principal root is arbitrary
        add(f'pow {n}', mat(r ** n), (s ** n).as_matrix(), tol)
    elif op == 'magnitude':
        add('magnitude', np.atleast_1d(r.magnitude().numpy()), np.atleast_1d(s.magnitude()), 1e-7 if c['kind'] in ('near_pi', 'near_identity') else 1e-9)
    return out


def oracle_scipy(c, o):
    if isinstance(o, dict) and 'raises' in o:
        return f'{c["op"]} on valid input raises {o["raises"]}: {o.get("msg")}'
    for label, a, b, tol in o:
        d = maxdiff(a, b)
        if d > tol:
            return f'{c["op"]} ({c.get("kind", c.get("seq", ""))}): {label}: differs from scipy / round trip by {d:.2e} (tolerance {tol})'
    return None


def descr_scipy(c):
    return {'op': c['op'], 'kind': c.get('kind'), 'seq': c.get('seq')}


FAMILIES = [
    Family('exact_threeway', gen_exact, impl_exact, coq_exact, PREAMBLE, cmp_exact, oracle_exact, shard=30,
           descr=lambda c: {'kind': c['kind'], 'seq': c.get('seq')},
           theorem='C12_quat_matrix, C12_compose, C12_inverse, C12_from_euler, C12_from_euler_short'),
    Family('scipy_ops', gen_scipy, impl_scipy, None, '', None, oracle_scipy, descr=descr_scipy,
           theorem='C12_matrix_quat_roundtrip, C12_from_rotvec, C12_rotvec_roundtrip_partial; as_euler / mean / align_vectors: correspondence only'),
]


# ---- added after seeded change C12-3: mean over several batch dimensions (any order, negative indices) with weights ----
def _gen_mean_dims(rng, tier):
    out = []
    dims_pool = [(0,), (1,), (-1,), (0, 1), (1, 0), (-1, 0), (0, -1), (-2, -1), (2, 0), (0, 2), (1, 2), (2, 1), None]
    for i in range(16 if tier == 'quick' else 240):
        shape = [rng.randint(2, 3) for _ in range(3)]
        d = dims_pool[i % len(dims_pool)]
        out.append({'shape': shape, 'dim': None if d is None else list(d), 'seed': rng.randrange(10 ** 6), 'weighted': i % 3 != 2, 'keepdim': rng.random() < 0.3})
    return out


def _impl_mean_dims(c):
    import itertools
    import numpy as np
    import torch
    from scipy.spatial.transform import Rotation as SR
    from mrpro.data import Rotation
    g = np.random.default_rng(c['seed'])
    shape = c['shape']
    # rotations clustered around a common one (the mean is well defined), weights far from uniform
    base = SR.from_rotvec([0.3, -0.2, 0.5])
    q = (SR.from_rotvec(g.normal(0, 0.35, (int(np.prod(shape)), 3))) * base).as_quat().reshape(*shape, 4)
    w = g.choice([0.25, 0.5, 1.0, 4.0, 8.0], size=shape) if c['weighted'] else None
    r = Rotation(torch.from_numpy(q))
    dim = None if c['dim'] is None else tuple(c['dim'])
    m = r.mean(weights=None if w is None else torch.from_numpy(w), dim=dim, keepdim=c['keepdim'])
    got = m.as_matrix().numpy()
    nd = len(shape)
    red = tuple(range(nd)) if dim is None else tuple(d % nd for d in dim)
    keep = [a for a in range(nd) if a not in red]
    ref = np.zeros([shape[a] for a in keep] + [3, 3])
    for idx in itertools.product(*[range(shape[a]) for a in keep]):
        sl = [slice(None)] * nd
        for a, i in zip(keep, idx):
            sl[a] = i
        qs = q[tuple(sl)].reshape(-1, 4)
        ws = None if w is None else w[tuple(sl)].reshape(-1)
        ref[idx] = SR.from_quat(qs).mean(weights=ws).as_matrix()
    got = got.reshape(ref.shape) if got.size == ref.size else got
    return {'dev': float(np.abs(got - ref).max()) if got.shape == ref.shape else -1.0, 'shape': list(m.shape), 'single': m.single}


def _oracle_mean_dims(c, o):
    if isinstance(o, dict) and 'raises' in o:
        return f'Rotation.mean(dim={c["dim"]}) raised {o}'
    if o['dev'] < 0:
        return f'Rotation.mean(dim={c["dim"]}, keepdim={c["keepdim"]}) has batch shape {o["shape"]}'
    if o['dev'] > 1e-6:
        return (f'Rotation.mean(weights, dim={c["dim"]}) differs from scipy\'s mean of each slice by {o["dev"]:.3g} '
                f'(shape {c["shape"]}, weighted={c["weighted"]})')
    return None


FAMILIES.append(Family('mean_over_dims', _gen_mean_dims, _impl_mean_dims, None, '', None, _oracle_mean_dims,
                       theorem='(scipy correspondence only: mean is not proved)'))


# ------------------------------------------------------------------------------------------------ family: use - edit in place - use again
# the same sequence (use; in-place edit; all representations) on mrpro and on scipy; every representation has to follow the edit
def _gen_use_edit_use(rng, tier):
    cases = []
    for _ in range(24 if tier == 'quick' else 400):
        n = rng.randint(3, 6)
        kind = rng.choice(KINDS)
        edits = []
        for _e in range(rng.choice([2, 2, 3])):
            k = rng.choice(['slice', 'slice', 'int', 'list', 'mask', 'comp', 'improper'])
            if k == 'slice':
                a = rng.randint(0, n - 1)
                b_ = rng.randint(a + 1, n)
                st = rng.choice([None, 1, 2])
                cnt = len(range(n)[a:b_:st])
                edits.append({'kind': 'set', 'ix': {'t': 'slice', 'v': [a, b_, st]}, 'q': _rand_quats(rng, 'generic', cnt)})
            elif k == 'int':
                edits.append({'kind': 'set', 'ix': {'t': 'int', 'v': rng.randint(-n, n - 1)}, 'q': _rand_quats(rng, 'generic', 1)})
            elif k == 'list':
                idx = rng.sample(range(n), rng.randint(1, n - 1))
                edits.append({'kind': 'set', 'ix': {'t': 'list', 'v': idx}, 'q': _rand_quats(rng, 'generic', len(idx))})
            elif k == 'mask':
                m = [rng.random() < 0.5 for _ in range(n)]
                m[rng.randrange(n)] = True
                edits.append({'kind': 'set', 'ix': {'t': 'mask', 'v': m}, 'q': _rand_quats(rng, 'generic', sum(m))})
            elif k == 'comp':
                edits.append({'kind': 'comp', 'comp': rng.choice('xyzw')})       # component := -component (keeps the norm)
            else:
                edits.append({'kind': 'improper', 'v': [rng.random() < 0.5 for _ in range(n)]})
        cases.append({'q': _rand_quats(rng, kind, n), 'kind': kind, 'first_use': rng.choice(['as_matrix', 'apply', 'apply_inverse', 'as_matrix']),
                      'edits': edits, 'v': [[rng.randint(-5, 5) / 2 for _ in range(3)] for _ in range(n)]})
    return cases


def _impl_use_edit_use(c):
    comp_index = {'z': 0, 'y': 1, 'x': 2, 'w': 3}
    Q = np.array(c['q'], dtype=float)
    Q = Q / np.linalg.norm(Q, axis=1, keepdims=True)
    sign = np.ones(len(Q))
    v = np.array(c['v'], dtype=float)
    r = M().from_quat(t64(Q))
    out = []

    def observe(step):
        ref = S().from_quat(Q)
        Mref = sign[:, None, None] * ref.as_matrix()
        tv = t64(v)
        obs = [('as_matrix', mat(r), Mref), ('apply', r(tv).numpy(), sign[:, None] * ref.apply(v)),
               ('apply(inverse)', r(tv, inverse=True).numpy(), sign[:, None] * ref.apply(v, inverse=True)),
               ('as_quat (as matrix)', sign[:, None, None] * S().from_quat(r.as_quat(improper='ignore').numpy()).as_matrix(), Mref),
               ('as_rotvec (as matrix)', sign[:, None, None] * S().from_rotvec(r.as_rotvec(improper='ignore').numpy()).as_matrix(), Mref),
               ('inv().as_matrix()', mat(r.inv()), np.transpose(Mref, (0, 2, 1))),
               ('is_improper', r.is_improper.numpy().astype(float), (sign < 0).astype(float))]
        for name, a, b in obs:
            out.append([f'{step}: {name}', np.asarray(a, dtype=float).tolist(), np.asarray(b, dtype=float).tolist(), 1e-9])
    # first use (this is what a cache would remember)
    if c['first_use'] == 'as_matrix':
        r.as_matrix()
    else:
        r(t64(v), inverse=c['first_use'] == 'apply_inverse')
    observe('before any edit')
    for k, e in enumerate(c['edits']):
        if e['kind'] == 'set':
            ix = e['ix']
            nq = np.array(e['q'], dtype=float)
            nq = nq / np.linalg.norm(nq, axis=1, keepdims=True)
            if ix['t'] == 'int':
                r[ix['v']] = M().from_quat(t64(nq[0]))
                Q[ix['v']] = nq[0]
                sign[ix['v']] = 1.0
            else:
                tidx = slice(*ix['v']) if ix['t'] == 'slice' else torch.tensor(ix['v'])
                nidx = slice(*ix['v']) if ix['t'] == 'slice' else np.array(ix['v'])
                r[tidx] = M().from_quat(t64(nq))
                Q[nidx] = nq
                sign[nidx] = 1.0
        elif e['kind'] == 'comp':
            cur = getattr(r, 'quaternion_' + e['comp']).clone()
            setattr(r, 'quaternion_' + e['comp'], -cur)
            Q[:, comp_index[e['comp']]] *= -1
        else:
            r.is_improper = torch.tensor(e['v'])
            sign = np.where(np.array(e['v']), -1.0, 1.0)
        observe(f'after edit {k + 1} ({e["kind"]}{" " + str(e["ix"]["t"]) if "ix" in e else ""})')
    return out


def _oracle_use_edit_use(c, o):
    if isinstance(o, dict) and 'raises' in o:
        return f'use / edit / use sequence raises {o["raises"]}: {o.get("msg")}'
    for label, a, b, tol in o:
        d = maxdiff(a, b)
        if d > tol:
            return f'{label}: differs from scipy after the same sequence by {d:.2e} (first use: {c["first_use"]})'
    return None


FAMILIES.append(Family('use_edit_use', _gen_use_edit_use, _impl_use_edit_use, None, '', None, _oracle_use_edit_use,
                       descr=lambda c: {'first_use': c['first_use'], 'edits': '-'.join(e['kind'] for e in c['edits'])},
                       nontrivial=lambda c: True,
                       theorem='(implementation vs scipy after in-place edits; the model side of item assignment is C13_getitem_setitem)'))
