"""C19 - operator-norm estimates are scale-free and respect the stated bounds.

Tie between Model/PowerIter.v (theorems in Properties/C19.v) and LinearOperator.operator_norm /
LinearOperatorMatrix.operator_norm: the real power iteration is run on float64 EinsumOp operators (plain, composite
A @ B, scalar multiples, batched with dim=(-1,) and dim=None), start vectors at scales 2^-20..2^20, budgets 1..30,
tolerances 0 and positive; the callback sequence and the return value are compared (as squares) with the exact rational
model at 1e-9 (cases within 1e-6 of the isclose boundary are skipped and counted).  The oracle checks C19's own statement
on the implementation: estimate <= largest singular value (numpy svd), non-decreasing callback sequence, independence of
the start-vector scale, and for operator matrices that the documented upper bound is >= the true norm.
"""
import math
from fractions import Fraction

import numpy as np
import torch

import vlib
from vlib import Family, natlit

LEVEL = 'proof'
RULE = ('integer matrices 1x1..4x4 (also rectangular) through EinsumOp, composites EinsumOp(A) @ EinsumOp(B), scalar multiples, '
        'stacks of matrices with dim=(-1,) (per-batch norms, joint stopping) and dim=None (block-diagonal operator), matrices with a kernel '
        '(start vector in the kernel: 0/0); integer start vectors times 2^e, e in [-20, 20]; max_iterations 0..30; (atol, rtol) in {0, dyadic}. '
        'Operator matrices: vertical, horizontal and grid layouts of scaled permutation blocks. Non-trivial = at least one iteration and a '
        'non-scalar operator; distinct by case hash.')
TRUSTED_BASE = ['numpy.linalg.svd as the true operator norm in the oracle',
                'the isclose decision of the model uses square roots rounded to 2^-64 (cases within 1e-6 of the boundary are skipped)',
                'complex operators are not generated for C19 (real part/imag part product is the same formula)']
ASSUMPTIONS = ['convergence of the power iteration to the norm (generic start vectors) is neither proved nor checked']
PREAMBLE = 'From MrVerif Require Import Model.CG Model.PowerIter.\nFrom Coq Require Import QArith List.\nImport ListNotations.'
STATS = {'boundary_skipped': 0, 'max_rel_diff': 0.0, 'stopped_by_tolerance': 0, 'exact_breakdown': 0}
TOL = 1e-9


def _matT_mat(A):
    m, n = len(A), len(A[0])
    return [[sum(A[k][i] * A[k][j] for k in range(m)) for j in range(n)] for i in range(n)]


def _matmul(A, B):
    return [[sum(A[i][k] * B[k][j] for k in range(len(B))) for j in range(len(B[0]))] for i in range(len(A))]


def effective(case):
    """list of effective integer matrices A_i (one per independent problem) and start vectors"""
    mats = case['mats']
    if case['kind'] == 'composite':
        mats = [_matmul(A, B) for A, B in zip(case['mats'], case['mats2'])]
    if case['kind'] == 'scaled':
        mats = [[[case['factor'] * v for v in row] for row in A] for A in mats]
    v0 = [[Fraction(v) * Fraction(2) ** case['scale_exp'] for v in vec] for vec in case['v0']]
    if case['dim'] is None and len(mats) > 1:  # block-diagonal operator, one problem
        m, n = len(mats[0]), len(mats[0][0])
        B = len(mats)
        big = [[0] * (B * n) for _ in range(B * m)]
        for k, A in enumerate(mats):
            for i in range(m):
                for j in range(n):
                    big[k * m + i][k * n + j] = A[i][j]
        return [big], [[x for vec in v0 for x in vec]]
    return mats, v0


def _rmat(rng, m, n, lo=-3, hi=3):
    return [[rng.randint(lo, hi) for _ in range(n)] for _ in range(m)]


def _rvec(rng, n, nonzero=True):
    while True:
        v = [rng.randint(-3, 3) for _ in range(n)]
        if any(v) or not nonzero:
            return v


TOLS = [(0.0, 0.0), (0.0, 0.0), (2.0 ** -17, 2.0 ** -13), (2.0 ** -10, 0.0), (0.0, 2.0 ** -7), (2.0 ** -30, 2.0 ** -30), (0.25, 0.0), (0.0, 0.25)]


def gen_power(rng, tier):
    cases = []
    n_cases = 140 if tier == 'quick' else 2500
    kinds = ['einsum', 'einsum', 'composite', 'scaled', 'batched_last', 'batched_last', 'batched_none', 'kernel']
    for _ in range(n_cases):
        kind = rng.choice(kinds)
        m, n = rng.randint(1, 4), rng.randint(1, 4)
        B = 1
        c = {'kind': kind, 'dim': 'last', 'scale_exp': rng.choice([0, 0, -20, -10, -3, 3, 10, 20]),
             'maxit': rng.choice([1, 1, 2, 3, 4, 6, 10, 20, 30]), 'tols': list(rng.choice(TOLS))}
        if kind in ('batched_last', 'batched_none'):
            B = rng.randint(2, 3)
            c['dim'] = 'last' if kind == 'batched_last' else None
        elif rng.random() < 0.3:
            c['dim'] = None
        c['mats'] = [_rmat(rng, m, n) for _ in range(B)]
        if kind == 'composite':
            k = rng.randint(1, 3)
            c['mats'] = [_rmat(rng, m, k, -2, 2)]
            c['mats2'] = [_rmat(rng, k, n, -2, 2)]
        if kind == 'scaled':
            c['factor'] = rng.choice([-3, -1, 2, 4])
        if kind == 'kernel':
            n = max(n, 2)
            A = _rmat(rng, m, n)
            for row in A:
                row[0] = 0  # e_0 is in the kernel
            c['mats'] = [A]
            c['v0'] = [[rng.randint(1, 3)] + [0] * (n - 1)] if rng.random() < 0.7 else [_rvec(rng, n)]
        else:
            c['v0'] = [_rvec(rng, len(c['mats2'][0][0]) if kind == 'composite' else n) for _ in range(B)]
        cases.append(c)
    # malformed stream: zero start vector, max_iterations 0
    for _ in range(6 if tier == 'quick' else 40):
        n = rng.randint(1, 3)
        bad = rng.choice(['zero', 'iter'])
        cases.append({'kind': 'einsum', 'dim': rng.choice(['last', None]), 'scale_exp': 0, 'maxit': 0 if bad == 'iter' else 3, 'tols': [0.0, 0.0],
                      'mats': [_rmat(rng, n, n)], 'v0': [[0] * n if bad == 'zero' else _rvec(rng, n)]})
    # the repaired defect: diag(3,1), scales 2^-10, 1, 2^10, one iteration
    for e in (-10, 0, 10):
        cases.append({'kind': 'einsum', 'dim': None, 'scale_exp': e, 'maxit': 1, 'tols': [2.0 ** -17, 2.0 ** -13], 'mats': [[[3, 0], [0, 1]]], 'v0': [[1, 1]]})
    return cases


def _build_op(case):
    from mrpro.operators import EinsumOp
    f = torch.float64
    kind = case['kind']
    batched = len(case['mats']) > 1
    M = torch.tensor(case['mats'], dtype=f)
    if not batched:
        M = M[0]
    op = EinsumOp(M, '... i j, ... j -> ... i')
    if kind == 'composite':
        op = op @ EinsumOp(torch.tensor(case['mats2'][0], dtype=f), '... i j, ... j -> ... i')
    if kind == 'scaled':
        op = case['factor'] * op
    return op, batched


def _run(case, scale_exp):
    # operator_norm creates op_norm_old with torch.zeros(...) in the *default* dtype; with the stock default (float32) and a
    # float64 start vector torch.isclose raises "Double did not match Float" as soon as a tolerance is positive (finding
    # KF-C19-1, family float64_input).  The numerical families therefore run with default dtype float64 (restored afterwards).
    old = torch.get_default_dtype()
    torch.set_default_dtype(torch.float64)
    try:
        return _run_inner(case, scale_exp)
    finally:
        torch.set_default_dtype(old)


def _run_inner(case, scale_exp):
    op, batched = _build_op(case)
    v0 = torch.tensor(case['v0'], dtype=torch.float64) * (2.0 ** scale_exp)
    if not batched:
        v0 = v0[0]
    keep = v0.clone()
    seq = []
    dim = (-1,) if case['dim'] == 'last' else None
    res = op.operator_norm(v0, dim=dim, max_iterations=case['maxit'], absolute_tolerance=case['tols'][0], relative_tolerance=case['tols'][1],
                           callback=lambda t: seq.append(t.detach().flatten().tolist()))
    return {'ret': res.detach().flatten().tolist(), 'seq': seq, 'shape': list(res.shape), 'unchanged': bool(torch.equal(v0, keep))}


def impl_power(case):
    out = _run(case, case['scale_exp'])
    if case['scale_exp'] != 0:
        try:
            out['unscaled'] = _run(case, 0)
        except Exception as e:  # noqa: BLE001
            out['unscaled'] = {'raises': vlib.exc_enum(e)}
    return out


def _q(fr):
    return vlib.qlit(Fraction(fr))


def coq_power(case):
    mats, v0 = effective(case)
    Gs = '[' + '; '.join('[' + '; '.join('[' + '; '.join(_q(v) for v in row) + ']' for row in _matT_mat(A)) + ']' for A in mats) + ']'
    vs = '[' + '; '.join('[' + '; '.join(_q(v) for v in vec) + ']' for vec in v0) + ']'
    return f'pnormQ {Gs} {_q(case["tols"][0])} {_q(case["tols"][1])} {vs} {natlit(case["maxit"])}'


def _near_boundary(case, rows):
    """rows: list of lists of squared estimates (floats) in order incl. the final one; True if some isclose decision is within 1e-6"""
    atol, rtol = case['tols']
    if atol == 0 and rtol == 0:
        return False
    old = [0.0] * len(rows[0]) if rows else []
    for r in rows:
        for q, o in zip(r, old):
            a, b = math.sqrt(max(q, 0.0)), math.sqrt(max(o, 0.0))
            margin = abs(a - b) - (atol + rtol * b)
            if abs(margin) <= 1e-6 * (atol + rtol * b) + 1e-12 * max(a, b):
                return True
        old = r
    return False


def _rel(a, b):
    # operators have integer entries: squared estimates below 1e-20 are rounding noise around an exact zero
    d = abs(a - b) / max(abs(a), abs(b), 1e-300)
    if a == b or (abs(a) < 1e-20 and abs(b) < 1e-20):
        d = 0.0
    STATS['max_rel_diff'] = max(STATS['max_rel_diff'], d) if d < 1 else STATS['max_rel_diff']
    return d


def compare_power(case, obs, model):
    status, est, trace = model
    if status in (2, 3):
        ok = isinstance(obs, dict) and obs.get('raises') == 'ValueError'
        return None if ok else f'model: ValueError ({"zero start vector" if status == 2 else "max_iterations < 1"}), impl: {str(obs)[:100]}'
    if isinstance(obs, dict) and 'raises' in obs:
        return f'impl raises {obs["raises"]} ({obs.get("msg")}), model status {status}'
    mtrace = [[float(Fraction(p[0], p[1])) for p in row] for row in trace]
    mest = [float(Fraction(p[0], p[1])) for p in est]
    if _near_boundary(case, mtrace + ([mest] if status == 0 else [])):
        STATS['boundary_skipped'] += 1
        return None
    finite = all(math.isfinite(v) for v in obs['ret'])
    if status == 1 or _degenerate(case):
        # exact breakdown: G v0 is exactly 0 (start vector in the kernel).  The model (repaired code) keeps the vector and the estimate stays 0;
        # so does the implementation when the float computation is exact as well, but with rounding noise in v0/|v0| the product G v is ~1e-16
        # instead of 0, gets renormalised and the iteration restarts from noise (still below the norm and non-decreasing: checked by the oracle).
        # Only the prefix before the breakdown (the first estimate) is compared; a non-finite value is never accepted.
        STATS['exact_breakdown'] += 1
        if not finite or not all(math.isfinite(v) for r in obs['seq'] for v in r):
            return f'model: estimates stay finite (0) for a start vector in the kernel, impl returns {obs["ret"]} after {obs["seq"][:3]}'
        mtrace = mtrace[:1]
        seq = obs['seq'][:len(mtrace)]
        scale = max([1e-300] + [v for r in mtrace for v in r])
        for k, (row, mrow) in enumerate(zip(seq, mtrace)):
            if len(row) != len(mrow) or any(not (abs(a * a - m) <= TOL * scale) for a, m in zip(row, mrow)):
                return f'callback {k} (before exact breakdown): estimate^2 model {mrow}, impl {[a * a for a in row]}'
        return None
    else:
        if not finite:
            return f'model returns {mest}, impl returns {obs["ret"]}'
        seq = obs['seq']
        if len(seq) != len(mtrace):
            return f'number of callback calls: model {len(mtrace)}, impl {len(seq)}'
        if len(seq) < case['maxit']:
            STATS['stopped_by_tolerance'] += 1
        if len(obs['ret']) != len(mest) or any(_rel(a * a, m) > TOL for a, m in zip(obs['ret'], mest)):
            return f'returned estimate^2: model {mest}, impl {[a * a for a in obs["ret"]]}'
    for k, (row, mrow) in enumerate(zip(seq, mtrace)):
        if len(row) != len(mrow) or any(_rel(a * a, m) > TOL for a, m in zip(row, mrow)):
            return f'callback {k}: estimate^2 model {mrow}, impl {[a * a for a in row]}'
    return None


def oracle_power(case, obs):
    if isinstance(obs, dict) and 'raises' in obs:
        bad_input = case['maxit'] < 1 or any(not any(v) for v in case['v0'])
        if obs['raises'] == 'ValueError' and bad_input:
            return None
        return f'operator_norm raises {obs["raises"]}: {obs.get("msg")}'
    if case['maxit'] < 1 or any(not any(v) for v in case['v0']):
        return 'zero start vector / max_iterations < 1 accepted'
    if not obs['unchanged']:
        return 'the start vector was modified'
    mats, _ = effective(case)
    true = [float(np.linalg.svd(np.array(A, dtype=np.float64), compute_uv=False)[0]) for A in mats]
    rows = obs['seq'] + [obs['ret']]
    if not all(math.isfinite(v) for r in rows for v in r):
        return f'non-finite estimate {obs["ret"]} (callback sequence {obs["seq"][:4]})' + (' for a start vector in the kernel of the operator' if _degenerate(case) else '')
    for k, r in enumerate(rows):
        if len(r) != len(true):
            return f'{len(r)} estimates for {len(true)} independent problems'
        for v, t in zip(r, true):
            if v > t * (1 + 1e-9) + 1e-300:
                return f'estimate {v!r} (step {k}) exceeds the operator norm {t!r}'
    for k in range(1, len(obs['seq'])):
        for a, b in zip(obs['seq'][k - 1], obs['seq'][k]):
            if b < a * (1 - 1e-9):
                return f'callback sequence decreases at step {k}: {a!r} -> {b!r}'
    if 'unscaled' in obs and not _degenerate(case):
        u = obs['unscaled']
        if 'raises' in u:
            return f'start vector times 2^{case["scale_exp"]} works but the unscaled one raises {u["raises"]}'
        near = _near_boundary(case, [[v * v for v in r] for r in rows]) or _near_boundary(case, [[v * v for v in r] for r in u['seq'] + [u['ret']]])
        if not near:
            if len(u['seq']) != len(obs['seq']):
                return f'start vector scaled by 2^{case["scale_exp"]}: {len(obs["seq"])} iterations instead of {len(u["seq"])}'
            for ra, rb in zip(rows, u['seq'] + [u['ret']]):
                if any(abs(a - b) > 1e-9 * max(abs(a), abs(b)) for a, b in zip(ra, rb)):
                    return f'estimate depends on the length of the start vector: {ra} (scale 2^{case["scale_exp"]}) vs {rb}'
    # convergence to the norm is deliberately not checked: it holds for generic start vectors only (a start vector orthogonal to
    # the dominant singular vector, e.g. (-1,1) for [[3,1],[1,3]], stays at the smaller singular value)
    return None


def _degenerate(case):
    """exact: some iterate G^k v0 vanishes within the budget (then vector_new/|vector_new| is 0/0)"""
    mats, v0 = effective(case)
    for A, v in zip(mats, v0):
        G = _matT_mat(A)
        u = [Fraction(x) for x in v]
        for _ in range(case['maxit']):
            u = [sum(g * x for g, x in zip(row, u)) for row in G]
            if not any(u):
                return True
    return False


def descr_power(case):
    return {k: case[k] for k in ('kind', 'dim', 'scale_exp', 'maxit', 'tols')}


# ------------------------------------------------------------------------------------------------
# operator matrices
def _perm_block(rng, n):
    c = rng.choice([0, 1, 1, 2, 3, 4])
    p = list(range(n))
    rng.shuffle(p)
    return {'c': c, 'perm': p}


def gen_matrix(rng, tier):
    cases = []
    for _ in range(40 if tier == 'quick' else 600):
        layout = rng.choice(['vertical', 'horizontal', 'grid'])
        r = 1 if layout == 'horizontal' else rng.randint(2, 3)
        c = 1 if layout == 'vertical' else rng.randint(2, 3)
        n = rng.randint(1, 3)
        cases.append({'layout': layout, 'n': n, 'blocks': [[_perm_block(rng, n) for _ in range(c)] for _ in range(r)], 'v0': [_rvec(rng, n) for _ in range(c)],
                      'scale_exp': rng.choice([0, -12, 12])})
    cases.append({'layout': 'horizontal', 'n': 1, 'blocks': [[{'c': 1, 'perm': [0]}, {'c': 1, 'perm': [0]}]], 'v0': [[1], [1]], 'scale_exp': 0})
    return cases


def _block_dense(b, n):
    M = [[0] * n for _ in range(n)]
    for i, j in enumerate(b['perm']):
        M[i][j] = b['c']
    return M


def impl_matrix(case):
    from mrpro.operators import EinsumOp, LinearOperatorMatrix
    n = case['n']
    ops = [[EinsumOp(torch.tensor(_block_dense(b, n), dtype=torch.float64), '... i j, ... j -> ... i') for b in row] for row in case['blocks']]
    M = LinearOperatorMatrix(ops)
    v0 = [torch.tensor(v, dtype=torch.float64) * 2.0 ** case['scale_exp'] for v in case['v0']]
    old = torch.get_default_dtype()
    torch.set_default_dtype(torch.float64)  # see _run
    try:
        res = M.operator_norm(*v0, dim=None, max_iterations=4, relative_tolerance=2.0 ** -13, absolute_tolerance=2.0 ** -17)
    finally:
        torch.set_default_dtype(old)
    return {'ret': float(res.flatten()[0])}


def coq_matrix(case):
    rows = '[' + '; '.join('[' + '; '.join(_q(b['c'] ** 2) for b in row) + ']' for row in case['blocks']) + ']'
    return f'matrix_normQ {rows}'


def compare_matrix(case, obs, model):
    if isinstance(obs, dict) and 'raises' in obs:
        return f'impl raises {obs["raises"]}: {obs.get("msg")}'
    want = float(Fraction(model[0], model[1]))
    got = obs['ret'] ** 2
    return None if abs(want - got) <= 1e-9 * max(1.0, want) else f'combination rule: model {want}, impl {got}'


def oracle_matrix(case, obs):
    if isinstance(obs, dict) and 'raises' in obs:
        return f'LinearOperatorMatrix.operator_norm raises {obs["raises"]}: {obs.get("msg")}'
    n = case['n']
    dense = np.block([[np.array(_block_dense(b, n), dtype=np.float64) for b in row] for row in case['blocks']])
    true = float(np.linalg.svd(dense, compute_uv=False)[0])
    if obs['ret'] < true * (1 - 1e-9):
        return f'documented upper bound {obs["ret"]!r} is below the true norm {true!r} of the block operator'
    return None


def descr_matrix(case):
    return {'layout': case['layout'], 'shape': [len(case['blocks']), len(case['blocks'][0])], 'scale_exp': case['scale_exp']}


def gen_f64(rng, tier):
    return [{'dtype': d, 'tols': t} for d in ('float32', 'float64') for t in ([1e-5, 1e-4], [0.0, 0.0])]


def impl_f64(case):
    from mrpro.operators import EinsumOp
    dt = getattr(torch, case['dtype'])
    op = EinsumOp(torch.tensor([[3.0, 0.0], [0.0, 1.0]], dtype=dt), '... i j, ... j -> ... i')
    r = op.operator_norm(torch.tensor([1.0, 1.0], dtype=dt), dim=None, max_iterations=8, absolute_tolerance=case['tols'][0], relative_tolerance=case['tols'][1])
    return {'ret': float(r.flatten()[0])}


def oracle_f64(case, obs):
    if isinstance(obs, dict) and 'raises' in obs:
        return f'operator_norm with a {case["dtype"]} start vector and tolerances {case["tols"]} raises {obs["raises"]}: {obs.get("msg")}'
    return None if 2.0 <= obs['ret'] <= 3.0 * (1 + 1e-6) else f'estimate {obs["ret"]} for diag(3,1)'


def extra_checks(ctx):
    ctx.notes.append('C19 statistics: ' + ', '.join(f'{k}={v:.3g}' if isinstance(v, float) else f'{k}={v}' for k, v in STATS.items()))
    for k, v in STATS.items():
        if k != 'max_rel_diff':
            ctx.count(k, int(v))



# ---- convergence on constructed spectra: operators of any scale, float32/float64, batched with different speeds ----
def gen_conv(rng, tier):
    out = []
    for _ in range(24 if tier == 'quick' else 400):
        n = rng.randint(2, 5)
        batch = rng.choice([1, 1, 2, 3])
        sig = []
        for _b in range(batch):
            top = rng.choice([1.0, 2.0, 3.0])
            ratio = rng.choice([0.25, 0.5, 0.9 if batch > 1 else 0.5])   # sigma_2 / sigma_1 (0.9: slow entry next to fast ones)
            sig.append([top] + [top * ratio * rng.choice([1.0, 0.5, 0.25]) for _ in range(n - 1)])
        # entries of one batch may differ by many orders of magnitude (the stopping rule is per entry, relative to that entry's own norm)
        entry_exp = [rng.choice([0, 0, -13, 13]) for _b in range(batch)]
        sig = [[v * 2.0 ** e for v in sg] for sg, e in zip(sig, entry_exp)]
        out.append({'n': n, 'batch': batch, 'sig': sig, 'scale_exp': rng.choice([-14, -10, -7, -4, 0, 4, 10]),
                    'dtype': rng.choice(['float32', 'float64']), 'perm_seed': rng.randrange(10 ** 6), 'maxit': 400,
                    'tol': rng.choice([0.0, 1e-6])})
    # fixed: a slowly converging entry of small norm next to a fast entry of large norm, positive relative tolerance (round-2 seeded change C19-b1)
    for dt in ('float32', 'float64'):
        for small_first in (True, False):
            slow = [2.0 ** -13 * v for v in (1.0, 0.9, 0.5)]
            fast = [3.0, 0.75, 0.375]
            out.append({'n': 3, 'batch': 2, 'sig': [slow, fast] if small_first else [fast, slow], 'scale_exp': 0, 'dtype': dt, 'perm_seed': 7,
                        'maxit': 400, 'tol': 1e-6})
    return out


def impl_conv(c):
    from mrpro.operators import EinsumOp
    dt = torch.float32 if c['dtype'] == 'float32' else torch.float64
    g = torch.Generator().manual_seed(c['perm_seed'])
    mats = []
    for sig in c['sig']:
        # A = P diag(sig) Q with signed permutations P, Q: exact singular values, entries exactly representable
        n = len(sig)
        P = torch.eye(n, dtype=dt)[torch.randperm(n, generator=g)] * (torch.randint(0, 2, (n,), generator=g) * 2 - 1).to(dt)
        Q = torch.eye(n, dtype=dt)[torch.randperm(n, generator=g)]
        mats.append((P @ torch.diag(torch.tensor(sig, dtype=dt)) @ Q) * (2.0 ** c['scale_exp']))
    M = torch.stack(mats)
    op = EinsumOp(M, '... i j, ... j -> ... i')
    v0 = torch.ones(c['batch'], c['n'], dtype=dt)   # has a component along every singular vector
    seq = []
    est = op.operator_norm(v0, dim=(-1,), max_iterations=c['maxit'], relative_tolerance=c['tol'], absolute_tolerance=0.0,
                           callback=lambda e: seq.append(e.reshape(-1).to(torch.float64).tolist()))
    return {'est': est.reshape(-1).to(torch.float64).tolist(), 'n_callbacks': len(seq),
            'true': [s[0] * 2.0 ** c['scale_exp'] for s in c['sig']]}


def oracle_conv(c, o):
    if isinstance(o, dict) and 'raises' in o:
        return f'operator_norm raised {o["raises"]}: {o.get("msg")}'
    eps = 2e-3 if c['dtype'] == 'float32' else 1e-6
    for e, t in zip(o['est'], o['true']):
        if not (e == e) or e <= 0:
            return f'estimate {e} is not a positive finite number (true norm {t})'
        if e > t * (1 + eps):
            return f'estimate {e} exceeds the true norm {t} ({c["dtype"]}, operator scale 2^{c["scale_exp"]})'
        # generic start vector, spectral gap >= 1/0.9, 400 iterations (or a relative tolerance of 1e-6 on every batch entry):
        # the estimate must have converged to the largest singular value - for every entry of the batch
        if e < t * (1 - max(eps, 2e-3)):
            return (f'estimate {e} did not converge to the true norm {t} ({c["dtype"]}, operator scale 2^{c["scale_exp"]}, '
                    f'batch {c["batch"]}, tolerance {c["tol"]}, {o["n_callbacks"]} iterations)')
    return None


def translate(ctx):
    """Regenerate Gen/opnorm_gen.v (literal reading of operator_norm) and re-check gen_lit_* = Model/PowerIterLit.v; C19_literal_refines ties that
    literal reading to the model the theorems are about."""
    from translate import opnorm
    out = vlib.COQ / 'Gen' / 'opnorm_gen.v'
    out.parent.mkdir(exist_ok=True)
    ok, why = opnorm.write(out)
    ctx.extra.setdefault('coverage', {})['translator_available'] = ok
    ctx.obligations += opnorm.N_OBLIGATIONS
    if not ok:
        ctx.notes.append(f'translator harness/translate/opnorm.py failed closed ({why})')
        ctx.problem('proof', 'gen_opnorm', None, f'operator_norm is outside the translated subset ({why}): the regenerated obligations cannot be stated')
        return
    rc, so, se = vlib.coqc_file(out)
    if rc == 0:
        ctx.discharged += opnorm.N_OBLIGATIONS
    else:
        ctx.problem('proof', 'gen_opnorm', None, 'regenerated obligation gen_lit_*_ok (operator_norm == Model/PowerIterLit.v) no longer proves: ' + (se or so)[-700:])


FAMILIES = [
    Family('convergence_any_scale', gen_conv, impl_conv, None, '', None, oracle_conv,
           descr=lambda c: {'dtype': c['dtype'], 'scale_exp': c['scale_exp'], 'batch': c['batch']}, theorem='(implementation-level: convergence is not proved)'),
    Family('power_iteration', gen_power, impl_power, coq_power, PREAMBLE, compare_power, oracle_power,
           nontrivial=lambda c: c['maxit'] >= 1 and any(any(v) for v in c['v0']) and len(c['mats'][0][0]) > 1, descr=descr_power, shard=15,
           theorem='C19_below_norm, C19_monotone, C19_monotone_step, C19_never_nan, C19_scale_free, C19_literal_refines'),
    # two families on the same kind of cases: the combination rule against the model (never matched by a known finding) and the
    # documented bound against the true norm (horizontal / grid layouts: open finding KF-02)
    Family('matrix_rule', gen_matrix, impl_matrix, coq_matrix, PREAMBLE, compare_matrix, None, descr=descr_matrix, shard=100,
           theorem='C19_vertical_rule_is_sum, C19_matrix_bound_refuted (the rule the code implements)'),
    Family('matrix_norm', gen_matrix, impl_matrix, None, '', None, oracle_matrix, descr=descr_matrix,
           theorem='C19_matrix_bound_refuted, C19_vertical_bound, C19_sum_of_squares_bound'),
    Family('float64_input', gen_f64, impl_f64, None, '', None, oracle_f64, descr=lambda c: {'dtype': c['dtype'], 'positive_tolerance': c['tols'][0] > 0},
           theorem='(implementation-level)'),
]
