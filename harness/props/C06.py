"""C06 - conjugate gradient returns the Krylov-optimal iterate and never corrupts it.

Tie between Model/CG.v (theorems in Properties/C06.v) and /repo/src/mrpro/algorithms/optimizers/cg.py:
the real cg() is run with a float64/complex128 EinsumOp and a recording callback; the same system is run
through the exact rational instance cgQ of the (single, polymorphic) Coq model with vm_compute; the callback
traces are compared at 1e-9, termination/finiteness/ValueError exactly.  Complex Hermitian systems are run in
the model as their realification [[A,-B],[B,A]] (same iterates: <r,r>.real and <p,Hp> are the real dot
products of the realified vectors).  Independently of the model, `oracle_*` checks the statement of C06 on
the implementation's trace with numpy (residual identity, Krylov optimality of every iterate, monotone
H-norm error, finiteness, solution within n steps, inputs untouched).
"""
from fractions import Fraction

import numpy as np
import torch

import vlib
from vlib import Family, natlit

LEVEL = 'proof'
RULE = ('systems H x = b with small-integer H = A^T A + D (real SPD, size 1-6), H = A^H A + D (complex HPD, size 1-3), '
        'clustered spectra c I + sum u u^T (exact termination in 1-3 steps), diagonal H, batched (B, n, n) EinsumOp = block-diagonal system, '
        'x0 in {None, zero, exact solution, random}, max_iterations 0..N+2, tolerance in {0, dyadic values that do / do not trigger}; '
        'plus non-symmetric real H (residual identity only), symmetric indefinite H with <p,Hp> = 0 in the first step (division by zero '
        '<=> non-finite result) and shape mismatches. Non-trivial = at least one iteration is carried out; distinct by case hash.')
TRUSTED_BASE = ['the harness function realify_matrix implements realify_mat of Proofs/CGProofsRealify.v (whose correctness is proved: C06_realify_*)',
                'numpy.linalg (solve, qr, lstsq) in the implementation-level oracle',
                'einops/torch.einsum as the operator applied by EinsumOp (observed, not modelled beyond matrix-vector product)']
ASSUMPTIONS = ['float64 rounding of cg on systems with condition number <= ~1e3 stays below 1e-9 relative (observed <= 1e-12)',
               'theorems are about exact arithmetic (any field); "to working precision within n iterations" is checked by the oracle only']
PREAMBLE = 'From MrVerif Require Import Model.CG.\nFrom Coq Require Import QArith List.\nImport ListNotations.'

TOL_REL = 1e-9
STATS = {'boundary_skipped': 0, 'exact_termination': 0, 'tolerance_triggered': 0, 'max_rel_diff': 0.0}


# ------------------------------------------------------------------------------------------------
# exact helpers (python side: only used for the boundary filter and to build cases)
def _c(v):
    """case scalar (int or [re, im]) -> python complex/int"""
    return complex(v[0], v[1]) if isinstance(v, list) else v


def _is_complex(case):
    return bool(case.get('complex'))


def dense(case):
    """dense matrix of the flattened (block-diagonal) system, numpy complex128/float64"""
    blocks = case['blocks']
    n = len(blocks[0])
    N = n * len(blocks)
    H = np.zeros((N, N), dtype=np.complex128 if _is_complex(case) else np.float64)
    for k, blk in enumerate(blocks):
        for i in range(n):
            for j in range(n):
                H[k * n + i, k * n + j] = _c(blk[i][j])
    return H


def realify_matrix(case):
    """integer matrix of the real system the model is run on"""
    blocks = case['blocks']
    n = len(blocks[0])
    N = n * len(blocks)
    if not _is_complex(case):
        M = [[0] * N for _ in range(N)]
        for k, blk in enumerate(blocks):
            for i in range(n):
                for j in range(n):
                    M[k * n + i][k * n + j] = blk[i][j]
        return M
    M = [[0] * (2 * N) for _ in range(2 * N)]
    for k, blk in enumerate(blocks):
        for i in range(n):
            for j in range(n):
                a, b_ = blk[i][j]
                r, c = k * n + i, k * n + j
                M[r][c] = a
                M[r][N + c] = -b_
                M[N + r][c] = b_
                M[N + r][N + c] = a
    return M


def realify_vec(case, v):
    if v is None:
        return None
    if not _is_complex(case):
        return list(v)
    return [e[0] for e in v] + [e[1] for e in v]


def _matvec(M, v):
    return [sum(Fraction(a) * Fraction(x) for a, x in zip(row, v)) for row in M]


# ------------------------------------------------------------------------------------------------
# generators
def _rand_mat(rng, n, lo=-2, hi=2):
    return [[rng.randint(lo, hi) for _ in range(n)] for _ in range(n)]


def _ata_plus_d(rng, n):
    A = _rand_mat(rng, n)
    D = [rng.randint(1, 3) for _ in range(n)]
    return [[sum(A[k][i] * A[k][j] for k in range(n)) + (D[i] if i == j else 0) for j in range(n)] for i in range(n)]


def _aha_plus_d(rng, n):
    A = [[complex(rng.randint(-2, 2), rng.randint(-2, 2)) for _ in range(n)] for _ in range(n)]
    D = [rng.randint(1, 3) for _ in range(n)]
    H = [[sum(A[k][i].conjugate() * A[k][j] for k in range(n)) + (D[i] if i == j else 0) for j in range(n)] for i in range(n)]
    return [[[int(z.real), int(z.imag)] for z in row] for row in H]


def _clustered(rng, n, rank):
    c = rng.randint(1, 4)
    H = [[c if i == j else 0 for j in range(n)] for i in range(n)]
    for _ in range(rank):
        u = [rng.randint(-2, 2) for _ in range(n)]
        for i in range(n):
            for j in range(n):
                H[i][j] += u[i] * u[j]
    return H


def _clustered_c(rng, n, rank):
    c = rng.randint(1, 4)
    H = [[complex(c if i == j else 0) for j in range(n)] for i in range(n)]
    for _ in range(rank):
        u = [complex(rng.randint(-2, 2), rng.randint(-2, 2)) for _ in range(n)]
        for i in range(n):
            for j in range(n):
                H[i][j] += u[i] * u[j].conjugate()
    return [[[int(z.real), int(z.imag)] for z in row] for row in H]


def _rand_vec(rng, N, cplx, lo=-3, hi=3, nonzero=True):
    while True:
        v = [[rng.randint(lo, hi), rng.randint(lo, hi)] if cplx else rng.randint(lo, hi) for _ in range(N)]
        if not nonzero or any(_c(e) != 0 for e in v):
            return v


TOLS = [0.0, 0.0, 0.0, 2.0 ** -30, 2.0 ** -10, 2.0 ** -5, 0.125, 0.5, 1.0, 3.0, 16.0, 1024.0]


def _case(rng, kind, blocks, cplx, batched, x0kind=None, maxit=None, tol=None):
    n = len(blocks[0])
    N = n * len(blocks)
    x0kind = x0kind or rng.choice(['none', 'zero', 'exact', 'random', 'random'])
    case = {'kind': kind, 'complex': cplx, 'batched': batched, 'blocks': blocks, 'x0kind': x0kind}
    if x0kind == 'exact':
        x0 = _rand_vec(rng, N, cplx, nonzero=False)
        Hd = dense(case)
        bv = Hd @ np.array([_c(e) for e in x0])
        b = [[int(round(z.real)), int(round(z.imag))] for z in bv] if cplx else [int(round(z)) for z in bv]
    else:
        b = _rand_vec(rng, N, cplx)
        x0 = None if x0kind == 'none' else ([[0, 0]] * N if cplx else [0] * N) if x0kind == 'zero' else _rand_vec(rng, N, cplx, nonzero=False)
    dim = 2 * N if cplx else N
    # data of any magnitude: 2**-60 ~ 1e-18 puts |r|^2 below eps^2, 2**-200 far below; 2**70 far above 1
    case['scale_exp'] = rng.choice([0, 0, 0, 20, 60, 200, -70])
    case.update({'b': b, 'x0': x0,
                 'maxit': maxit if maxit is not None else rng.choice([0, 1, 1, 2, 2, 3, max(1, dim - 1), dim, dim, dim + 1, dim + 2]),
                 'tol': tol if tol is not None else rng.choice(TOLS)})
    return case


def gen_systems(rng, tier):
    cases = []
    n_cases = 260 if tier == 'quick' else 3000
    nmax = 5 if tier == 'quick' else 6
    kinds = ['spd', 'spd', 'spd', 'clustered', 'clustered', 'diag', 'batched', 'batched', 'complex', 'complex', 'complex_clustered', 'complex_batched', 'nonsym']
    for _ in range(n_cases):
        kind = rng.choice(kinds)
        if kind == 'spd':
            c = _case(rng, kind, [_ata_plus_d(rng, rng.randint(1, nmax))], False, False)
        elif kind == 'clustered':
            n = rng.randint(1, nmax + 1)
            c = _case(rng, kind, [_clustered(rng, n, rng.randint(0, 2))], False, False, tol=rng.choice([0.0, 0.0, 2.0 ** -10]))
        elif kind == 'diag':
            n = rng.randint(1, nmax)
            d = [rng.randint(1, 5) for _ in range(n)]
            c = _case(rng, kind, [[[d[i] if i == j else 0 for j in range(n)] for i in range(n)]], False, False)
        elif kind == 'batched':
            n, B = rng.choice([(1, 2), (1, 3), (2, 2), (2, 3), (3, 2)])
            c = _case(rng, kind, [rng.choice([_ata_plus_d, lambda r, m: _clustered(r, m, 1)])(rng, n) for _ in range(B)], False, True)
        elif kind == 'complex':
            c = _case(rng, kind, [_aha_plus_d(rng, rng.randint(1, 3))], True, False)
        elif kind == 'complex_clustered':
            c = _case(rng, kind, [_clustered_c(rng, rng.randint(1, 3), rng.randint(0, 1))], True, False, tol=0.0)
        elif kind == 'complex_batched':
            n, B = rng.choice([(1, 2), (1, 3), (2, 2)])
            c = _case(rng, kind, [_aha_plus_d(rng, n) for _ in range(B)], True, True)
        else:  # non-symmetric but with positive-definite symmetric part: only the residual identity is demanded
            n = rng.randint(2, 4)
            H = _ata_plus_d(rng, n)
            for i in range(n):
                for j in range(i + 1, n):
                    s = rng.randint(-1, 1)
                    H[i][j] += s
                    H[j][i] -= s
            c = _case(rng, kind, [H], False, False, maxit=rng.randint(1, 4))
        cases.append(c)
    # fixed small regressions of the two repaired defects
    cases.append({'kind': 'diag', 'complex': False, 'batched': False, 'blocks': [[[2, 0], [0, 2]]], 'x0kind': 'none', 'b': [1, 2], 'x0': None, 'maxit': 1, 'tol': 0.0})
    cases.append({'kind': 'diag', 'complex': False, 'batched': False, 'blocks': [[[1]]], 'x0kind': 'zero', 'b': [1], 'x0': [0], 'maxit': 2, 'tol': 0.0})
    cases.append({'kind': 'diag', 'complex': False, 'batched': False, 'blocks': [[[1]]], 'x0kind': 'zero', 'b': [1], 'x0': [0], 'maxit': 5, 'tol': 0.0})
    return cases


def gen_degenerate(rng, tier):
    """shape mismatches and symmetric indefinite systems whose first <p,Hp> is exactly zero"""
    cases = []
    templates = [([[0, 1], [1, 0]], [1, 0]), ([[1, 0], [0, -1]], [1, 1]), ([[0, 2], [2, 0]], [0, 3]), ([[1, 0], [0, -1]], [2, -2]),
                 ([[0, 0], [0, 0]], [1, 2]), ([[1, 2], [2, 4]], [2, -1]),
                 ([[2, 0, 0], [0, -1, 0], [0, 0, -1]], [1, 1, 1]), ([[0, 1, 0], [1, 0, 0], [0, 0, 0]], [0, 1, 0])]
    for H, r0 in templates:
        n = len(H)
        q = sum(r0[i] * H[i][j] * r0[j] for i in range(n) for j in range(n))
        for x0kind in ('zero', 'random'):
            if x0kind == 'zero':
                x0, b = [0] * n, list(r0)
            else:
                x0 = [rng.randint(-2, 2) for _ in range(n)]
                b = [r0[i] + sum(H[i][j] * x0[j] for j in range(n)) for i in range(n)]
            cases.append({'kind': 'indefinite', 'zero_curvature': q == 0, 'complex': False, 'batched': False, 'blocks': [H], 'x0kind': x0kind, 'b': b,
                          'x0': x0, 'maxit': rng.randint(1, 3), 'tol': 0.0})
    for _ in range(6 if tier == 'quick' else 60):
        n = rng.randint(1, 3)
        m = rng.choice([k for k in range(1, 5) if k != n])
        cases.append({'kind': 'shape', 'complex': False, 'batched': False, 'blocks': [_ata_plus_d(rng, n)], 'x0kind': 'random', 'b': _rand_vec(rng, n, False),
                      'x0': _rand_vec(rng, m, False), 'maxit': 2, 'tol': 0.0})
    return cases


# ------------------------------------------------------------------------------------------------
# implementation side
def _tensors(case):
    cplx = _is_complex(case)
    dt = torch.complex128 if cplx else torch.float64
    blocks = case['blocks']
    n = len(blocks[0])
    H = torch.tensor([[[_c(v) for v in row] for row in blk] for blk in blocks], dtype=dt)
    b = torch.tensor([_c(v) for v in case['b']], dtype=dt)
    x0 = None if case['x0'] is None else torch.tensor([_c(v) for v in case['x0']], dtype=dt)
    if case['batched']:
        b = b.reshape(len(blocks), n)
        if x0 is not None and x0.numel() == b.numel():
            x0 = x0.reshape(len(blocks), n)
    else:
        H = H[0]
    return H, b, x0


def _flat(t):
    t = t.detach().flatten()
    if t.is_complex():
        return t.real.tolist() + t.imag.tolist()
    return t.tolist()


def impl_cg(case):
    from mrpro.algorithms.optimizers import cg
    from mrpro.operators import EinsumOp
    H, b, x0 = _tensors(case)
    # CG commutes with scaling the data: b, x0 and the (absolute) tolerance are multiplied by s = 2**-scale_exp (an exact operation in binary
    # floating point) and iterates/residuals are divided by s again, so the model and the oracle see the unscaled system.
    s = 2.0 ** (-case.get('scale_exp', 0))
    b = b * s
    x0 = None if x0 is None else x0 * s
    op = EinsumOp(H, '... i j, ... j -> ... i')
    keep = [t.clone() if t is not None else None for t in (H, b, x0)]
    vers = [t._version if t is not None else None for t in (H, b, x0)]
    trace, handed = [], []

    def cb(status):
        trace.append([_flat(status['solution'][0] / s), _flat(status['residual'] / s), int(status['iteration_number'])])
        handed.append((status['solution'][0], status['residual']))     # kept by reference: a consumer may look at the history afterwards

    x = cg(op, b, x0, case['maxit'], case['tol'] * s, cb)
    same = lambda u, v: np.array_equal(np.array(u), np.array(v), equal_nan=True)  # noqa: E731
    history_intact = all(same(_flat(xk / s), t[0]) and same(_flat(rk / s), t[1]) for (xk, rk), t in zip(handed, trace))
    unchanged = all((t is None) or (torch.equal(t, k) and t._version == v) for t, k, v in zip((H, b, x0), keep, vers))
    unchanged = unchanged and torch.equal(op.matrix.detach(), keep[0])
    return {'x': _flat(x / s), 'trace': trace, 'finite': bool(torch.isfinite(torch.view_as_real(x) if x.is_complex() else x).all()),
            'unchanged': bool(unchanged), 'shape_ok': list(x.shape) == list(b.shape), 'dtype_ok': x.dtype == b.dtype,
            'history_intact': bool(history_intact)}


# ------------------------------------------------------------------------------------------------
# model side
def _qv(v):
    return '[' + '; '.join(vlib.qlit(Fraction(e)) for e in v) + ']'


def coq_cg(case):
    M = realify_matrix(case)
    b = realify_vec(case, case['b'])
    x0 = realify_vec(case, case['x0'])
    mat = '[' + '; '.join(_qv(row) for row in M) + ']'
    x0s = 'None' if x0 is None else f'(Some {_qv(x0)})'
    return f'cgQ_run {mat} {vlib.qlit(Fraction(case["tol"]))} {_qv(b)} {x0s} {natlit(case["maxit"])}'


def _fr(p):
    return Fraction(p[0], p[1])


def _close(a, b, scale):
    if not (np.isfinite(a)):
        return False
    d = abs(a - b) / scale
    STATS['max_rel_diff'] = max(STATS['max_rel_diff'], d)
    return d <= TOL_REL


def compare_cg(case, obs, model):
    status, xm, tm = model
    if status == 2:
        ok = isinstance(obs, dict) and obs.get('raises') == 'ValueError'
        return None if ok else f'model: shape mismatch (ValueError), impl: {str(obs)[:80]}'
    if isinstance(obs, dict) and 'raises' in obs:
        return f'impl raises {obs["raises"]} ({obs.get("msg")}), model status {status}'
    M = realify_matrix(case)
    b = realify_vec(case, case['b'])
    x0 = realify_vec(case, case['x0']) if case['x0'] is not None else b
    r0 = [Fraction(bi) - hi for bi, hi in zip(b, _matvec(M, x0))]
    xs = [[_fr(p) for p in e[0]] for e in tm]
    rs = [[_fr(p) for p in e[1]] for e in tm]
    # stay away from the tolerance boundary (float rr vs exact rr)
    t2 = Fraction(case['tol']) ** 2
    rrs = [sum(v * v for v in r) for r in [r0] + rs]
    if t2 != 0 and any(abs(rr - t2) <= Fraction(1, 10 ** 6) * t2 for rr in rrs):
        STATS['boundary_skipped'] += 1
        return None
    if t2 != 0 and status == 0 and rrs[-1] != 0 and rrs[-1] < t2 and len(tm) < case['maxit']:
        STATS['tolerance_triggered'] += 1
    scale_x = max([1.0] + [abs(float(v)) for x in [x0] + xs for v in x])
    scale_r = max([1.0] + [abs(float(v)) for v in b] + [abs(float(v)) for v in r0])
    if status == 1:
        if obs['finite']:
            return 'model: a zero denominator is reached (non-finite result), impl returns a finite tensor'
        it = obs['trace'][:len(tm)]
    else:
        if not obs['finite']:
            return f'model returns a finite solution, impl result is not finite: {obs["x"][:6]}'
        it = obs['trace']
        exact_stop = (rrs[-1] == 0)
        if len(it) != len(tm):
            # exact termination: the exact residual is 0 and the model returns; in float64 the residual is ~1e-16 and the
            # implementation goes on (tolerance 0) with negligible updates
            if not (exact_stop and len(it) > len(tm)):
                return f'number of iterations: model {len(tm)} (last rr {float(rrs[-1]):.3g}), impl {len(it)}'
            STATS['exact_termination'] += 1
            xl = xs[-1] if xs else x0
            for e in it[len(tm):]:
                if not all(_close(a, float(m), scale_x) for a, m in zip(e[0], xl)) or not all(_close(a, 0.0, scale_r) for a in e[1]):
                    return f'after exact convergence (model stops at {len(tm)}) the implementation moves away: iteration {e[2]} x={e[0][:4]} r={e[1][:4]}'
            it = it[:len(tm)]
        final = xs[-1] if xs else x0
        xm = [_fr(p) for p in xm]
        if xm != [Fraction(v) for v in final]:
            return 'model inconsistency: returned value differs from last iterate'
        if len(obs['x']) != len(xm) or not all(_close(a, float(m), scale_x) for a, m in zip(obs['x'], xm)):
            return f'returned solution: model {[float(v) for v in xm][:6]} impl {obs["x"][:6]}'
    for e, x, r, me in zip(it, xs, rs, tm):
        if e[2] != me[2]:
            return f'iteration_number {e[2]} vs model {me[2]}'
        if len(e[0]) != len(x) or not all(_close(a, float(m), scale_x) for a, m in zip(e[0], x)):
            return f'iterate {e[2]}: model {[float(v) for v in x][:6]} impl {e[0][:6]}'
        if not all(_close(a, float(m), scale_r) for a, m in zip(e[1], r)):
            return f'residual {e[2]}: model {[float(v) for v in r][:6]} impl {e[1][:6]}'
    return None


# ------------------------------------------------------------------------------------------------
# the property's own statement on the implementation's observation
def _unflat(case, v):
    a = np.array(v, dtype=np.float64)
    if _is_complex(case):
        N = len(a) // 2
        return a[:N] + 1j * a[N:]
    return a


def oracle_cg(case, obs):
    if isinstance(obs, dict) and 'raises' in obs:
        if case['kind'] == 'shape' and obs['raises'] == 'ValueError':
            return None
        return f'cg raises {obs["raises"]}: {obs.get("msg")}'
    if case['kind'] == 'shape':
        return 'shape mismatch between initial_value and right_hand_side accepted'
    if not obs['unchanged']:
        return 'an input tensor (operator matrix, right_hand_side or initial_value) was modified (values or ._version)'
    if not obs.get('history_intact', True):
        return ('the iterates x_k / residuals handed to the callback were overwritten by later iterations: a callback that keeps them sees '
                'the same values for every k (scale 2**-%d)' % case.get('scale_exp', 0))
    H = dense(case)
    b = np.array([_c(v) for v in case['b']])
    x0 = b.copy() if case['x0'] is None else np.array([_c(v) for v in case['x0']])
    N = len(b)
    hpd = case['kind'] not in ('nonsym', 'indefinite')
    if hpd and not obs['finite']:
        return f'result is not finite for an HPD system (max_iterations={case["maxit"]}, tolerance={case["tol"]}): {obs["x"][:6]}'
    if hpd and not (obs['shape_ok'] and obs['dtype_ok']):
        return 'result has a different shape/dtype than right_hand_side'
    scale_r = max(1.0, np.abs(b).max(), np.abs(b - H @ x0).max())
    xs = [x0]
    for e in obs['trace']:
        x, r = _unflat(case, e[0]), _unflat(case, e[1])
        if not (np.isfinite(x).all() and np.isfinite(r).all()):
            if hpd:
                return f'non-finite iterate at iteration {e[2]}'
            return None
        true_r = b - H @ x
        if np.abs(true_r - r).max() > 1e-9 * max(scale_r, np.abs(H).max() * np.abs(x).max()):
            return f'reported residual at iteration {e[2]} is {r[:4]}, but b - H x_k = {true_r[:4]}'
        xs.append(x)
    if [e[2] for e in obs['trace']] != list(range(len(obs['trace']))):
        return f'iteration numbers {[e[2] for e in obs["trace"]]}'
    if len(obs['trace']) > case['maxit']:
        return f'{len(obs["trace"])} iterations with max_iterations={case["maxit"]}'
    if not hpd:
        return None
    xr = _unflat(case, obs['x'])
    if np.abs(xr - xs[-1]).max() > 1e-12 * max(1.0, np.abs(xr).max()):
        return 'returned solution differs from the last iterate given to the callback'
    xstar = np.linalg.solve(H, b)
    en = lambda y: float(np.real(np.vdot(xstar - y, H @ (xstar - y))))  # noqa: E731
    ref = en(np.zeros(N)) + en(x0) + 1.0
    errs = [en(x) for x in xs]
    for k in range(1, len(errs)):
        if errs[k] > errs[k - 1] * (1 + 1e-9) + 1e-18 * ref:
            return f'H-norm error increases at iteration {k - 1}: {errs[k - 1]:.6g} -> {errs[k]:.6g}'
    # Krylov optimality of every iterate: minimiser of the H-norm error over x0 + span{r0, H r0, ..}
    r0 = b - H @ x0
    K = np.zeros((N, 0), dtype=H.dtype)
    v = r0.copy()
    for k in range(1, len(xs)):
        K = np.concatenate([K, v[:, None]], axis=1)
        v = H @ v
        if errs[k - 1] <= 1e-22 * ref or k > 6:
            break  # converged before: the Krylov space has stopped growing
        Q, R = np.linalg.qr(K)
        if np.abs(np.diag(R)).min() <= 1e-7 * np.abs(np.diag(R)).max():
            break
        G = Q.conj().T @ H @ Q
        c = np.linalg.solve(G, Q.conj().T @ r0)
        best = x0 + Q @ c
        if en(xs[k]) > en(best) * (1 + 1e-6) + 1e-14 * ref:
            return (f'iterate {k} is not the minimiser of the H-norm error over x0 + K_{k}(H, r0): error {en(xs[k]):.6g} '
                    f'> optimum {en(best):.6g}')
    dim = N
    if case['tol'] == 0.0 and case['maxit'] >= dim:
        if np.abs(xr - xstar).max() > 1e-6 * max(1.0, np.abs(xstar).max()):
            return f'after {case["maxit"]} >= n = {dim} iterations the solution is not reached: {xr[:4]} vs {xstar[:4]}'
    if case['tol'] != 0.0 and len(obs['trace']) < case['maxit']:
        rr = float(np.real(np.vdot(b - H @ xr, b - H @ xr)))
        if rr > case['tol'] ** 2 * (1 + 1e-6) + 1e-20:
            return f'stopped before max_iterations with |r|^2 = {rr:.6g} >= tolerance^2 = {case["tol"] ** 2:.6g}'
    return None


def descr_cg(case):
    d = {k: case[k] for k in ('kind', 'complex', 'batched', 'x0kind', 'maxit', 'tol')}
    d['scale_exp'] = case.get('scale_exp', 0)
    return d


def _nontrivial(case):
    return case['kind'] != 'shape' and case['maxit'] >= 1 and case['x0kind'] != 'exact'


def translate(ctx):
    """Regenerate Gen/cg_gen.v from cg.py (initialisation, early exit, one pass of the loop body) and re-check gen_* = Model/CG.v."""
    from translate import cg as tcg
    out = vlib.COQ / 'Gen' / 'cg_gen.v'
    out.parent.mkdir(exist_ok=True)
    ok, why = tcg.write(out)
    ctx.extra.setdefault('coverage', {})['translator_available'] = ok
    ctx.obligations += tcg.N_OBLIGATIONS
    if not ok:
        ctx.notes.append(f'translator harness/translate/cg.py failed closed ({why})')
        ctx.problem('proof', 'gen_cg', None, f'cg.py is outside the translated subset ({why}): the regenerated obligations gen_cg_* = Model/CG.v cannot be stated')
        return
    rc, so, se = vlib.coqc_file(out)
    if rc == 0:
        ctx.discharged += tcg.N_OBLIGATIONS
    else:
        ctx.problem('proof', 'gen_cg', None, 'regenerated obligation gen_cg_*_ok (cg.py == Model/CG.v: init / early exit / loop body) no longer proves: ' + (se or so)[-700:])


def extra_checks(ctx):
    ctx.notes.append('C06 statistics: ' + ', '.join(f'{k}={v:.3g}' if isinstance(v, float) else f'{k}={v}' for k, v in STATS.items()))
    for k, v in STATS.items():
        if k != 'max_rel_diff':
            ctx.count(k, int(v))


# ---- budgets far beyond convergence, tolerance 0, every floating-point dtype: the result stays finite and is the solution ----
def gen_past(rng, tier):
    out = []
    for dt in ('complex64', 'complex128', 'float32', 'float64'):
        for maxit in (4, 40, 200):
            for kind in ('scaled_identity', 'spd'):
                n = rng.randint(2, 5)
                A = [[rng.randint(-2, 2) for _ in range(n)] for _ in range(n)]
                out.append({'dtype': dt, 'maxit': maxit, 'kind': kind, 'n': n, 'A': A, 'factor': rng.choice([1.5, 0.25, 3.0]), 'seed': rng.randrange(10 ** 6)})
    return out if tier != 'quick' else out


def impl_past(c):
    from mrpro.algorithms.optimizers import cg
    from mrpro.operators import EinsumOp, IdentityOp
    dt = getattr(torch, c['dtype'])
    g = torch.Generator().manual_seed(c['seed'])
    n = c['n']
    b = torch.randn(n, generator=g, dtype=torch.float64).to(dt)
    if dt.is_complex:
        b = b + 1j * torch.randn(n, generator=g, dtype=torch.float64).to(dt)
    if c['kind'] == 'scaled_identity':
        H = c['factor'] * IdentityOp()
        Hd = c['factor'] * np.eye(n)
    else:
        A = torch.tensor(c['A'], dtype=torch.float64)
        M = A.T @ A + torch.eye(n, dtype=torch.float64)
        H = EinsumOp(M.to(dt), '... i j, ... j -> ... i')
        Hd = M.numpy()
    trace = []
    x = cg(H, b, max_iterations=c['maxit'], tolerance=0.0, callback=lambda s: trace.append(float(torch.linalg.vector_norm(s['residual']))))
    xs = np.linalg.solve(Hd.astype(np.complex128), b.to(torch.complex128).numpy())
    xv = x.to(torch.complex128).numpy()
    return {'finite': bool(np.isfinite(xv).all()), 'err': float(np.abs(xv - xs).max() / max(1.0, np.abs(xs).max())) if np.isfinite(xv).all() else None,
            'n_callbacks': len(trace), 'residual_norms': trace[:8]}


def oracle_past(c, o):
    if isinstance(o, dict) and 'raises' in o:
        return f'cg raised {o["raises"]}: {o.get("msg")}'
    if not o['finite']:
        return (f'HPD system ({c["kind"]}, n = {c["n"]}, {c["dtype"]}), tolerance 0, max_iterations = {c["maxit"]} (far beyond convergence): the result is not '
                f'finite; residual norms reported to the callback: {o["residual_norms"]}')
    eps = 1e-4 if c['dtype'] in ('complex64', 'float32') else 1e-10
    if c['maxit'] >= c['n'] and o['err'] > eps:      # "within n iterations": says nothing about fewer than n
        return f'after {c["maxit"]} >= n iterations the solution is not reached to working precision ({c["dtype"]}): relative error {o["err"]:.3g}'
    return None


FAMILIES = [
    Family('past_convergence', gen_past, impl_past, None, '', None, oracle_past, descr=lambda c: {'dtype': c['dtype'], 'maxit': c['maxit'], 'kind': c['kind']},
           theorem='C06_never_diverges, C06_fixed_point_loop (exact arithmetic); floating-point under-/overflow is outside the model: implementation-level oracle'),
    Family('cg_systems', gen_systems, impl_cg, coq_cg, PREAMBLE, compare_cg, oracle_cg, nontrivial=_nontrivial, descr=descr_cg, shard=12,
           theorem='C06_residual, C06_finite, C06_fixed_point_*, C06_conjugate, C06_orthogonal, C06_krylov, C06_optimal, C06_monotone, C06_within_n'),
    Family('cg_degenerate', gen_degenerate, impl_cg, coq_cg, PREAMBLE, compare_cg, oracle_cg, nontrivial=_nontrivial, descr=descr_cg, shard=12,
           theorem='C06_residual (any linear H), explicit division by zero <=> non-finite'),
]
