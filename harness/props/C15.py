"""C15 - re-organising k-space data keeps every sample with its location and header."""
import copy
import dataclasses
import math
import os
import shutil
import tempfile

import numpy as np
import torch

import ismrmrd_writer as W
import vlib
from vlib import Family, zlit, zlist

LEVEL = 'proof'
RULE = ('transform_sequence: KData loaded from a real ISMRMRD file written per case (ids in data, stored trajectory and scan_counter; '
        'other in 1..3 via one of the six labels, k2 1..3, k1 2..6, k0 = encoding x in {4,6}, recon x in {same, half, odd}; dense stored, '
        'Cartesian-broadcast or partially broadcast user trajectories) followed by 1-5 random operations out of split_k1/k2_into_other '
        '(split_idx blocks with overlap / cyclic, or arbitrary 2-D indices), select_other_subset (with repetitions), rearrange_k2_k1_into_k1, '
        'remove_readout_os, clone, and compress_coils / prewhiten_kspace as last step, plus invalid arguments; final id arrays of data, per-readout orientation (rotation matrices of mixed right- and left-handed read/phase/slice frames), '
        'broadcast trajectory, scan_counter, the six labels, center_sample, limits and a deep snapshot of the source compared exactly with '
        'Model/KTransform.v under vm_compute. Non-trivial = at least one operation that moves samples; distinct by case hash.')
TRUSTED_BASE = ['translator harness/translate/ktransform.py (ast -> Gallina for crop window, select index, split / rearrange index maps; the rest pinned textually; fail-closed)',
                'harness/ismrmrd_writer.py and C14 loading (the source object is snapshotted after loading and given to the model as is)',
                'einops.rearrange/repeat, torch fancy indexing, Tensor.unfold (modelled as index maps, validated by correspondence)',
                'torch.fft, torch.svd, cholesky/solve_triangular (implementation-level oracles only: remove_readout_os image claim, compress_coils projector)']
ASSUMPTIONS = ['data are constant along k0 per (readout, coil) so that FFT-crop-FFT of remove_readout_os keeps ids up to the factor sqrt(N/M)',
               'remove_readout_os image-domain claim and compress_coils projection claim are checked on the implementation only (_partial)']
PREAMBLE = 'From MrVerif Require Import Base.Prelude Base.Tensor Model.KTransform.'

def translate(ctx):
    """Regenerate Gen/ktransform_gen.v from KDataRemoveOsMixin / KDataSelectMixin / KDataSplitMixin / KDataRearrangeMixin and re-check
    the obligations gen_* = Model/KTransform.v."""
    from translate import ktransform as tk
    out = vlib.COQ / 'Gen' / 'ktransform_gen.v'
    out.parent.mkdir(exist_ok=True)
    ok, why = tk.write(out)
    ctx.extra.setdefault('coverage', {})['translator_available'] = ok
    ctx.obligations += tk.N_OBLIGATIONS
    if not ok:
        ctx.notes.append(f'translator harness/translate/ktransform.py failed closed ({why})')
        ctx.problem('proof', 'gen_ktransform', None,
                    f'the KData re-organisation methods are outside the translated subset ({why}): the regenerated obligations '
                    'gen_* = Model/KTransform.v cannot be stated')
        return
    rc, so, se = vlib.coqc_file(out)
    if rc == 0:
        ctx.discharged += tk.N_OBLIGATIONS
    else:
        ctx.problem('proof', 'gen_ktransform', None,
                    'regenerated obligation gen_*_ok (remove_readout_os window / select index / split and rearrange index maps == '
                    'Model/KTransform.v) no longer proves: ' + (se or so)[-700:])


LABELS6 = ('average', 'slice', 'contrast', 'phase', 'repetition', 'set')
_TMP = None


def _tmpdir():
    global _TMP
    if _TMP is None or not os.path.isdir(_TMP):
        base = vlib.WORK / 'C15'
        base.mkdir(parents=True, exist_ok=True)
        _TMP = tempfile.mkdtemp(prefix='files_', dir=str(base))
    return _TMP


# ------------------------------------------------------------------------------------------------
# generator
# ------------------------------------------------------------------------------------------------
def py_split_idx(n, per, overlap, cyclic):
    step = per - overlap
    idx = list(range(n)) + (list(range(n))[:step] if cyclic else [])
    return [idx[s:s + per] for s in range(0, len(idx) - per + 1, step)]


def make_case(rng, malformed=False):
    n_other = rng.choice([1, 1, 1, 2, 3])
    olabel = rng.choice(LABELS6)
    ovals = sorted(rng.sample(range(0, 5), n_other))
    n2 = rng.choice([1, 2, 2, 3])
    n1 = rng.randint(2, 6)
    n0 = rng.choice([4, 6])
    recon = rng.choice([n0, n0 // 2, n0 // 2, 3 if rng.random() < 0.5 else n0 // 2])
    traj = rng.choice(['ismrmrd3', 'ismrmrd3', 'cartesian', 'cartesian', 'user_k2', 'user_dense'])
    c = {'olabel': olabel, 'ovals': ovals, 'n2': n2, 'n1': n1, 'n0': n0, 'recon': recon, 'traj': traj, 'coils': 2,
         'centers': rng.random() < 0.3, 'seed': rng.randrange(10 ** 6)}
    # light simulation of shapes / label values for drawing valid arguments
    nO, k2, k1 = n_other, n2, n1
    used = {olabel}
    vals = {olabel: list(ovals)} if n_other > 1 else {}
    ops, kf04, os_done = [], False, False
    n_ops = rng.randint(1, 5)
    for step in range(n_ops):
        last = step == n_ops - 1
        kind = rng.choice(['split_k1', 'split_k1', 'split_k2', 'select', 'select', 'rearrange', 'remove_os', 'clone'] +
                          (['compress', 'prewhiten'] if last else []))
        if kind in ('split_k1', 'split_k2'):
            n = k1 if kind == 'split_k1' else k2
            free = [l for l in LABELS6 if l not in used]
            if n < 1 or not free or (nO > 1 and rng.random() < 0.3):
                continue
            label = rng.choice(free)
            if rng.random() < 0.7:
                per = rng.randint(1, n)
                overlap = rng.randint(0, per - 1)
                sidx = py_split_idx(n, per, overlap, rng.random() < 0.4)
                if not sidx:
                    continue
            else:
                per = rng.randint(1, n)
                sidx = [[rng.randrange(n) for _ in range(per)] for _ in range(rng.randint(1, 3))]
            if malformed and rng.random() < 0.5:
                bad = rng.choice(['range', 'label'])
                if bad == 'range':
                    sidx[-1][-1] = n + rng.randint(0, 2)
                elif used:
                    label = rng.choice(sorted(used))
            ops.append({'op': kind, 'sidx': sidx, 'label': label})
            ns = len(sidx)
            if nO > 1:
                kf04 = True
            vals = {l: [v for v in vs for _ in range(ns)] for l, vs in vals.items()}
            if nO == 1:
                vals[label] = list(range(ns))
            used.add(label)
            nO *= ns
            if kind == 'split_k1':
                k1 = len(sidx[0])
            else:
                k2 = len(sidx[0])
        elif kind == 'select':
            cand = [l for l in vals if vals[l]]
            if not cand:
                continue
            label = rng.choice(cand)
            present = sorted(set(vals[label]))
            subset = [rng.choice(present) for _ in range(rng.randint(1, min(3, len(present) + 1)))]
            if malformed and rng.random() < 0.5:
                subset.append(max(present) + 2)
            ops.append({'op': 'select', 'subset': subset, 'label': label})
            oi = [o for el in subset for o in range(nO) if vals[label][o] == el]
            vals = {l: [vs[o] for o in oi] for l, vs in vals.items()}
            nO = len(oi)
            if nO == 0:
                break
        elif kind == 'rearrange':
            ops.append({'op': 'rearrange'})
            k1, k2 = k1 * k2, 1
        elif kind == 'remove_os':
            ops.append({'op': 'remove_os'})
        elif kind == 'compress':
            ops.append({'op': 'compress', 'n': 1})
        else:
            ops.append({'op': kind})
    c['ops'] = ops
    c['split_with_other_gt_1'] = kf04
    c['malformed'] = malformed
    return c


def gen_seq(rng, tier):
    n = 120 if tier == 'quick' else 2500
    cases = [make_case(rng) for _ in range(n)]
    cases += [make_case(rng, malformed=True) for _ in range(n // 8)]
    return [c for c in cases if c['ops']]


# ------------------------------------------------------------------------------------------------
# implementation side
# ------------------------------------------------------------------------------------------------
def _data_fn(a, nc, nk0):
    return [[complex(a['id'] * 64 + cc * 16, a['id'])] * nk0 for cc in range(nc)]


def build_kdata(c):
    from mrpro.data import KData, KTrajectory
    from mrpro.data.traj_calculators import KTrajectoryCartesian, KTrajectoryIsmrmrd
    acqs, aid = [], 1
    for ov in c['ovals']:
        for k2 in range(c['n2']):
            for k1 in range(c['n1']):
                acqs.append({'id': aid, 'labels': {'k1': k1, 'k2': k2, c['olabel']: ov}, 'flags': 0, 'coils': c['coils'],
                             'center': (aid % 3) if c['centers'] else c['n0'] // 2, 'discard_pre': 2 if aid % 2 else 0})
                aid += 1
    lim = {'kspace_encoding_step_1': (0, c['n1'] - 1, c['n1'] // 2), 'kspace_encoding_step_2': (0, c['n2'] - 1, c['n2'] // 2),
           c['olabel']: (0, max(c['ovals']), 0)}
    xml = W.xml_header(enc_matrix=(c['n0'], 8, 4), recon_matrix=(c['recon'], 8, 4), limits=lim, trajectory='other')
    fn = os.path.join(_tmpdir(), f'c15_{os.getpid()}.h5')
    W.write_file(fn, acqs, n_k0=c['n0'], header_xml=xml, data_fn=_data_fn)
    try:
        if c['traj'] == 'ismrmrd3':
            t = KTrajectoryIsmrmrd()
        elif c['traj'] == 'cartesian':
            t = KTrajectoryCartesian()
        elif c['traj'] == 'user_k2':      # depends on k2 and k0 only: broadcast along other and k1
            t = KTrajectory(100. + torch.arange(c['n2'], dtype=torch.float32).reshape(1, -1, 1, 1), torch.zeros(1, 1, 1, 1),
                            torch.arange(c['n0'], dtype=torch.float32).reshape(1, 1, 1, -1) - c['n0'] // 2)
        else:                              # dense in (k2, k1, k0), broadcast along other
            g = torch.arange(c['n2'] * c['n1'] * c['n0'], dtype=torch.float32).reshape(1, c['n2'], c['n1'], c['n0'])
            t = KTrajectory(1000 + g, 2000 + g, 3000 + g)
        return KData.from_file(fn, t)
    finally:
        W.remove(fn)


def snapshot(kd):
    """everything observable of a KData as plain python values"""
    info = kd.header.acq_info
    out = {'data': kd.data.clone(), 'traj': [t.clone() for t in (kd.traj.kz, kd.traj.ky, kd.traj.kx)]}
    fields = {}
    for f in dataclasses.fields(info):
        v = getattr(info, f.name)
        if isinstance(v, torch.Tensor):
            fields[f.name] = v.clone()
    for f in dataclasses.fields(info.idx):
        fields['idx.' + f.name] = getattr(info.idx, f.name).clone()
    fields['orientation'] = info.orientation.as_matrix().clone()
    fields['position'] = torch.stack([info.position.x, info.position.y, info.position.z]).clone()
    out['info'] = fields
    out['limits'] = copy.deepcopy(dataclasses.asdict(kd.header.encoding_limits))
    out['matrices'] = [str(kd.header.encoding_matrix), str(kd.header.recon_matrix), str(kd.header.encoding_fov), str(kd.header.recon_fov)]
    return out


def snap_diff(a, b):
    bad = []
    if a['data'].shape != b['data'].shape or not torch.equal(a['data'], b['data']):
        bad.append('data')
    for m, (x, y) in enumerate(zip(a['traj'], b['traj'])):
        if x.shape != y.shape or not torch.equal(x, y):
            bad.append(f'traj[{m}]')
    for k in a['info']:
        x, y = a['info'][k], b['info'][k]
        if x.shape != y.shape or not torch.equal(x, y):
            bad.append('acq_info.' + k)
    if a['limits'] != b['limits']:
        bad.append('encoding_limits')
    if a['matrices'] != b['matrices']:
        bad.append('matrix/fov')
    return bad


_FRAMES = {}


def frame_index(mat):
    """index of the writer's read/phase/slice frame (6 and 7 are left-handed) whose rotation matrix this is, -1 if none"""
    if not _FRAMES:
        from mrpro.data import Rotation, SpatialDimension
        for f, (rd, ph, sl) in enumerate(W.FRAMES):
            def sd(v):
                return SpatialDimension(x=torch.tensor(float(v[0])), y=torch.tensor(float(v[1])), z=torch.tensor(float(v[2])))
            m = Rotation.from_directions(sd(sl), sd(ph), sd(rd)).as_matrix()
            _FRAMES[tuple(int(round(float(x))) for x in m.flatten().tolist())] = f
    return _FRAMES.get(tuple(int(round(float(x))) for x in mat.flatten().tolist()), -1)


INFO_NAMES = ('scan_counter',) + tuple('idx.' + l for l in ('average', 'slice', 'contrast', 'phase', 'repetition', 'set')) + ('center_sample', 'orientation')


def arrays(kd, scale=1.0, opaque=False):
    """id arrays of a KData (see Model/KTransform.v)"""
    d = kd.data
    sh = list(d.shape)
    info = kd.header.acq_info
    out = {'shape': sh}
    if not opaque:
        dn = d.numpy().astype(np.complex128) / scale
        re, im = np.round(dn.real), np.round(dn.imag)
        out['data_is_id'] = bool(np.allclose(dn.real, re, atol=2e-2) and np.allclose(dn.imag, im, atol=2e-2))
        out['data'] = [int(v) for v in re.flatten().tolist()]
        out['data_acq'] = [int(v) for v in im.flatten().tolist()]
    tr = [kd.traj.kz, kd.traj.ky, kd.traj.kx]
    out['traj_shapes'] = [list(t.shape) for t in tr]
    out['traj_shapes_raw'] = out['traj_shapes']
    out['traj_raw'] = [[int(round(float(v))) for v in t.flatten().tolist()] for t in tr]
    try:
        full = (sh[0], sh[2], sh[3], sh[4])
        ex = [t.expand(*full) for t in tr]
        out['traj'] = [[float(v) for v in t.flatten().tolist()] for t in ex]
    except RuntimeError:
        out['traj'] = None
    inf = []
    for name in ('scan_counter',) + tuple('idx.' + l for l in LABELS6) + ('center_sample',):
        t = getattr(info.idx, name[4:]) if name.startswith('idx.') else getattr(info, name)
        if t.ndim == 4 and t.shape[-1] == 1:
            t = t[..., 0]
        inf.append([list(t.shape), [int(round(float(v))) for v in t.flatten().tolist()]])
    om = info.orientation.as_matrix()           # (other, k2, k1, 1, 3, 3): rotation matrices incl. the reflection of improper ones
    om = om.reshape(*om.shape[:3], -1, 3, 3)[..., 0, :, :]
    osh = list(om.shape[:3])
    inf.append([osh, [frame_index(m) for m in om.reshape(-1, 3, 3)]])
    out['info'] = inf
    lim = kd.header.encoding_limits
    out['lims'] = [getattr(lim, l).length for l in LABELS6]
    out['encx'] = int(kd.header.encoding_matrix.x)
    out['reconx'] = int(kd.header.recon_matrix.x)
    out['nsamples'] = sorted({int(v) for v in info.number_of_samples.flatten().tolist()})
    return out


def apply_impl(kd, op):
    if op['op'] == 'split_k1':
        return kd.split_k1_into_other(torch.tensor(op['sidx']), op['label'])
    if op['op'] == 'split_k2':
        return kd.split_k2_into_other(torch.tensor(op['sidx']), op['label'])
    if op['op'] == 'select':
        return kd.select_other_subset(torch.tensor(op['subset']), op['label'])
    if op['op'] == 'rearrange':
        return kd.rearrange_k2_k1_into_k1()
    if op['op'] == 'remove_os':
        return kd.remove_readout_os()
    if op['op'] == 'clone':
        return kd.clone()
    if op['op'] == 'compress':
        return kd.compress_coils(op['n'])
    if op['op'] == 'prewhiten':
        from mrpro.algorithms.prewhiten_kspace import prewhiten_kspace
        from mrpro.data import KNoise
        g = torch.Generator().manual_seed(7)
        nc = kd.data.shape[-4]
        noise = torch.randn(1, nc, 1, 1, 64, generator=g) + 1j * torch.randn(1, nc, 1, 1, 64, generator=g)
        return prewhiten_kspace(kd, KNoise(noise.to(torch.complex64)))
    raise ValueError(op)


def impl_seq(c):
    src = build_kdata(c)
    before = snapshot(src)
    init = arrays(src)
    kd, raised, done, opaque = src, None, 0, False
    for op in c['ops']:
        try:
            nxt = apply_impl(kd, op)
        except Exception as e:  # noqa: BLE001
            raised = {'raises': vlib.exc_enum(e), 'msg': str(e)[:120]}
            break
        if op['op'] in ('compress', 'prewhiten'):
            opaque = True
        kd = nxt
        done += 1
    n0 = kd.data.shape[-1]
    scale = math.sqrt(c['n0'] / n0) if n0 != c['n0'] else 1.0
    return {'init': init, 'final': arrays(kd, scale, opaque), 'raised': raised, 'done': done, 'opaque': opaque,
            'source_changed': snap_diff(before, snapshot(src))}


# ------------------------------------------------------------------------------------------------
# model side: the source object as observed + the operations
# ------------------------------------------------------------------------------------------------
_LAST = {}


def coq_op(op):
    def tbl(t):
        return '[' + '; '.join(zlist(r) for r in t) + ']'
    lab = lambda l: zlit(LABELS6.index(l) + 1)  # noqa: E731
    k = op['op']
    if k == 'split_k1':
        return f'OpSplitK1 {tbl(op["sidx"])} {lab(op["label"])}'
    if k == 'split_k2':
        return f'OpSplitK2 {tbl(op["sidx"])} {lab(op["label"])}'
    if k == 'select':
        return f'OpSelect {zlist(op["subset"])} {lab(op["label"])}'
    return {'rearrange': 'OpRearrange', 'remove_os': 'OpRemoveOs', 'clone': 'OpClone', 'prewhiten': 'OpPrewhiten',
            'compress': f'OpCompress {zlit(op.get("n", 1))}'}[k]


def coq_seq_from_obs(c, init):
    tsh = '[' + '; '.join(zlist(s) for s in init['traj_shapes_raw']) + ']'
    tda = '[' + '; '.join(zlist(d) for d in init['traj_raw']) + ']'
    info = '[' + '; '.join(zlist(a[1]) for a in init['info']) + ']'
    ops = '[' + '; '.join(coq_op(o) for o in c['ops']) + ']'
    return (f'(let k0 := of_lists {zlist(init["shape"])} {zlist(init["data"])} {tsh} {tda} {info} {zlist(init["lims"])} '
            f'{zlit(init["encx"])} {zlit(init["reconx"])} in let \'(kf, e, n) := run {ops} k0 in (tabulate kf, e, n))')


# the model input is the loaded source object itself, so the implementation is run first (driver order: impl, then coq)
def impl_seq_cached(c):
    import json
    o = impl_seq(c)
    _LAST[json.dumps(c, sort_keys=True)] = o
    return o


def coq_seq(c):
    import json
    o = _LAST.pop(json.dumps(c, sort_keys=True), None)
    if o is None or 'init' not in o:
        return '(0, 0)'
    return coq_seq_from_obs(c, o['init'])


def cmp_seq(c, o, m):
    if isinstance(o, dict) and 'raises' in o and 'init' not in o:
        return f'building the source object failed: {o}'
    (shape, data, (tcons, traj), info, (lims, encx, reconx), err, n) = m
    want_err = None if err is None else {'ErrValue': 'ValueError', 'ErrIndex': 'IndexError'}[err['some'][0]]
    got_err = o['raised']['raises'] if o['raised'] else None
    if want_err != got_err or n != o['done']:
        return f'model: {n} operations then {want_err}; impl: {o["done"]} operations then {o["raised"]}'
    f = o['final']
    if f['shape'] != shape:
        return f'data shape: model {shape} impl {f["shape"]}'
    if not o['opaque']:
        if not f['data_is_id']:
            return 'implementation data are no longer (scaled) ids: values were mixed along k0 or between readouts'
        if f['data'] != data:
            return f'data ids differ: model {data[:16]}... impl {f["data"][:16]}...'
    if tcons != (f['traj'] is not None):
        return f'trajectory broadcastable to data: model {tcons} impl {f["traj"] is not None} (shapes {f["traj_shapes"]} vs data {f["shape"]})'
    if tcons:
        for mm in range(3):
            if [float(v) for v in traj[mm]] != f['traj'][mm]:
                return f'trajectory component {mm}: model {traj[mm][:12]}... impl {f["traj"][mm][:12]}...'
    for r, ((ms, md), (is_, id_)) in enumerate(zip(info, f['info'])):
        if ms != is_ or md != id_:
            name = INFO_NAMES[r]
            return f'acq_info {name}: model shape {ms} {md[:12]}..., impl shape {is_} {id_[:12]}...'
    if lims != f['lims'] or encx != f['encx'] or reconx != f['reconx']:
        return f'limits/matrix: model {lims, encx, reconx} impl {f["lims"], f["encx"], f["reconx"]}'
    return None


def oracle_seq(c, o):
    if 'init' not in o:
        return f'a valid KData could not be built: {o}'
    if o['source_changed']:
        return f'the source object was modified by the operations: {o["source_changed"]}'
    if o['raised'] and not c['malformed']:
        return f'valid operation {c["ops"][o["done"]]} (step {o["done"]}) raised {o["raised"]}'
    f, init = o['final'], o['init']
    sh = f['shape']
    # shapes mutually consistent
    if f['traj'] is None:
        return f'trajectory shapes {f["traj_shapes"]} cannot be broadcast to the data shape {sh}'
    shape_msg = None     # a header field of the wrong shape that is not needed below does not end the check: the pairing is still examined
    for r, (s, _) in enumerate(f['info']):
        if s != [sh[0], sh[2], sh[3]]:
            name = INFO_NAMES[r]
            msg = f'acq_info {name} has shape {s}, data has (other,k2,k1) = {[sh[0], sh[2], sh[3]]}'
            if r in (0, 7, 8):
                return msg
            shape_msg = shape_msg or msg
    if f['nsamples'] != [sh[4]]:
        return f'number_of_samples {f["nsamples"]} but k0 = {sh[4]}'
    if o['opaque']:
        return shape_msg
    if not f['data_is_id']:
        return 'data values are not those of single source readouts any more (mixed samples)'
    # pairing: every output readout carries data, header and trajectory of the same source readout
    nO, nC, n2, n1, n0 = sh
    isn = init['shape']
    src_traj = {}   # (acq, m) -> readout of source trajectory
    it = [np.array(t).reshape(isn[0], isn[2], isn[3], isn[4]) for t in init['traj']]
    isc = np.array(init['info'][0][1]).reshape(isn[0], isn[2], isn[3])
    icen = np.array(init['info'][7][1]).reshape(isn[0], isn[2], isn[3])
    for o_ in range(isn[0]):
        for a in range(isn[2]):
            for b in range(isn[3]):
                for m in range(3):
                    src_traj[(int(isc[o_, a, b]), m)] = it[m][o_, a, b]
    start = c['n0'] // 2 - c['recon'] // 2 if n0 != c['n0'] else 0
    dacq = np.array(f['data_acq']).reshape(sh)
    dre = np.array(f['data']).reshape(sh)
    sc = np.array(f['info'][0][1]).reshape(nO, n2, n1)
    fo = np.array(f['info'][8][1]).reshape(nO, n2, n1)
    src_frame = dict(zip(init['info'][0][1], init['info'][8][1]))
    ft = [np.array(t).reshape(nO, n2, n1, n0) for t in f['traj']]
    for o_ in range(nO):
        for a in range(n2):
            for b in range(n1):
                acq = int(sc[o_, a, b])
                if int(fo[o_, a, b]) != src_frame.get(acq):
                    return (f'position (other,k2,k1)=({o_},{a},{b}) holds readout {acq}, whose orientation is frame {src_frame.get(acq)} '
                            f'({"left" if src_frame.get(acq, 0) >= 6 else "right"}-handed read/phase/slice); the rotation matrix there is frame {int(fo[o_, a, b])}')
                for cc in range(nC):
                    if not (dacq[o_, cc, a, b] == acq).all() or not (dre[o_, cc, a, b] == acq * 64 + cc * 16).all():
                        return (f'position (other,k2,k1)=({o_},{a},{b}) coil {cc}: data belong to readout {dacq[o_, cc, a, b].tolist()} / value '
                                f'{dre[o_, cc, a, b].tolist()}, header scan_counter says {acq}')
                for m in range(3):
                    want = src_traj[(acq, m)][start:start + n0]
                    if not np.array_equal(ft[m][o_, a, b], want):
                        return (f'position ({o_},{a},{b}): trajectory component {m} is {ft[m][o_, a, b].tolist()}, readout {acq} had '
                                f'{want.tolist()} (window start {start})')
    return shape_msg


def _collapsed_then_reorganised(c):
    """a split whose index is one repeated value makes the trajectory constant (hence singleton after repeat detection) along that
    axis; a later split of that axis / merge of k2 and k1 then hits the same situation as a trajectory given broadcast"""
    for i, o in enumerate(c['ops']):
        if o['op'] in ('split_k1', 'split_k2') and len(o['sidx'][0]) > 1 and all(len(set(r)) == 1 for r in o['sidx']):   # every block repeats one index
            if any(n['op'] in (o['op'], 'rearrange') for n in c['ops'][i + 1:]):
                return True
    return False


def descr_seq(c):
    kinds = [o['op'] for o in c['ops']]
    return {'split_with_other_gt_1': c['split_with_other_gt_1'], 'traj': c['traj'], 'ops': kinds,
            'malformed': c['malformed'], 'recon_parity': f'{c["n0"]}->{c["recon"]}',
            # trajectory that does not depend on k1 at all, re-organised along k1
            'broadcast_traj_axis_reorganised': (c['traj'] == 'user_k2' and ('split_k1' in kinds or 'rearrange' in kinds)) or _collapsed_then_reorganised(c),
            'os_even_to_odd': 'remove_os' in kinds and c['n0'] % 2 == 0 and c['recon'] % 2 == 1 and c['recon'] < c['n0']}


# ------------------------------------------------------------------------------------------------
# split_idx
# ------------------------------------------------------------------------------------------------
def gen_sidx(rng, tier):
    cases = []
    for n in range(1, 10 if tier == 'quick' else 16):
        for per in range(1, n + 1):
            for ov in range(0, per + 1):
                for cyc in (False, True):
                    cases.append({'n': n, 'per': per, 'overlap': ov, 'cyclic': cyc})
    if tier == 'quick':
        cases = rng.sample(cases, 150)
    return cases


def impl_sidx(c):
    from mrpro.utils import split_idx
    return split_idx(torch.arange(c['n']), c['per'], c['overlap'], c['cyclic']).tolist()


def coq_sidx(c):
    return (f'match split_idx {zlit(c["n"])} {zlit(c["per"])} {zlit(c["overlap"])} {vlib.boollit(c["cyclic"])} with '
            f'| Some (nb, f) => Some (sidx_table nb {zlit(c["per"])} f) | None => None end')


def cmp_sidx(c, o, m):
    if m is None:
        return None if isinstance(o, dict) and o.get('raises') in ('ValueError', 'RuntimeError') else f'model: error, impl {o}'
    if isinstance(o, dict):
        return f'impl raises {o}, model {m["some"]}'
    return None if o == m['some'] else f'model {m["some"]} impl {o}'


def oracle_sidx(c, o):
    if c['overlap'] >= c['per']:
        return None if isinstance(o, dict) and o.get('raises') == 'ValueError' else f'overlap >= block size accepted: {o}'
    if isinstance(o, dict):
        return f'valid arguments rejected: {o}'
    step = c['per'] - c['overlap']
    for s, blk in enumerate(o):
        if blk != [(s * step + b) % c['n'] for b in range(c['per'])]:
            return f'block {s} is {blk}: not {c["per"]} consecutive (cyclic) indices starting at {s * step}'
        if not c['cyclic'] and blk[-1] < blk[0]:
            return f'block {s} wraps around without cyclic=True'
    return None


# ------------------------------------------------------------------------------------------------
# implementation-level oracles: image-domain claim of remove_readout_os, projector claim of compress_coils
# ------------------------------------------------------------------------------------------------
def gen_numeric(rng, tier):
    cases = []
    for _ in range(10 if tier == 'quick' else 150):
        n0 = rng.choice([4, 6, 8])
        cases.append({'kind': rng.choice(['os', 'os', 'coils']), 'n0': n0, 'recon': rng.choice([n0 // 2, n0 // 2, n0 - 1, n0 - 2]),
                      'n1': rng.randint(2, 5), 'coils': rng.choice([2, 3, 4]), 'ncomp': rng.choice([1, 2]), 'seed': rng.randrange(10 ** 6)})
    return cases


def impl_numeric(c):
    g = torch.Generator().manual_seed(c['seed'])
    cc = {'olabel': 'repetition', 'ovals': [0], 'n2': 1, 'n1': c['n1'], 'n0': c['n0'], 'recon': c['recon'], 'traj': 'cartesian',
          'coils': c['coils'] if c['coils'] <= 4 else 4, 'centers': False, 'seed': 0}
    kd0 = build_kdata(cc)
    data = (torch.randint(-8, 9, kd0.data.shape, generator=g) + 1j * torch.randint(-8, 9, kd0.data.shape, generator=g)).to(torch.complex64)
    kd = type(kd0)(kd0.header, data, kd0.traj)
    if c['kind'] == 'os':
        r = kd.remove_readout_os()
        n, m = c['n0'], r.data.shape[-1]
        img = torch.fft.fftshift(torch.fft.ifft(torch.fft.ifftshift(data.to(torch.complex128), dim=-1), dim=-1, norm='ortho'), dim=-1)
        img_r = torch.fft.fftshift(torch.fft.ifft(torch.fft.ifftshift(r.data.to(torch.complex128), dim=-1), dim=-1, norm='ortho'), dim=-1)
        start = n // 2 - m // 2     # the window that keeps the image centre n//2 at the new centre m//2
        err = float((img_r - img[..., start:start + m]).abs().max() / img.abs().max())
        kx = r.traj.kx.flatten().tolist()
        return {'err': err, 'm': m, 'kx': kx, 'center': sorted(set(r.header.acq_info.center_sample.flatten().tolist()))}
    r = kd.compress_coils(c['ncomp'])
    # the compression is linear in the coil axis: recover M (ncomp x coils) from the data, check M M^H = I and idempotence
    x = data.to(torch.complex128).movedim(1, -1).reshape(-1, data.shape[1])        # samples x coils
    y = r.data.to(torch.complex128).movedim(1, -1).reshape(-1, c['ncomp'])
    mt = torch.linalg.lstsq(x, y).solution                                           # coils x ncomp:  y = x @ mt
    res = float((x @ mt - y).abs().max() / y.abs().max())
    gram = mt.mH @ mt
    p = mt @ mt.mH
    energy = float((y.abs() ** 2).sum() / (x.abs() ** 2).sum())
    ev = torch.linalg.eigvalsh(x.mH @ x)
    best = float(ev[-c['ncomp']:].sum() / ev.sum())
    # PCACompressionOp removes the mean over the coil axis before the SVD: the dominant subspace of that matrix is accepted too
    xc = x - x.mean(-1, keepdim=True)
    evc = torch.linalg.eigvalsh(xc.mH @ xc)
    energy_c = float(((xc @ mt).abs() ** 2).sum() / (xc.abs() ** 2).sum())
    best_c = float(evc[-c['ncomp']:].sum() / evc.sum())
    return {'lin_res': res, 'orth': float((gram - torch.eye(c['ncomp'])).abs().max()), 'idem': float((p @ p - p).abs().max()),
            'energy': energy, 'best': best, 'energy_c': energy_c, 'best_c': best_c}


def oracle_numeric(c, o):
    if 'raises' in o:
        return f'{c["kind"]}: raised {o}'
    if c['kind'] == 'os':
        if o['err'] > 1e-5:
            return (f'remove_readout_os {c["n0"]} -> {o["m"]}: IFFT(result) differs from the centre crop of IFFT(data) by {o["err"]:.3g} '
                    '(relative): the image inside the reduced field of view is not unchanged')
        m = o['m']
        if o['kx'] != [float(j - m // 2) for j in range(m)]:
            return f'remove_readout_os {c["n0"]} -> {m}: Cartesian kx after cropping is {o["kx"]}, the reduced grid is {[j - m // 2 for j in range(m)]}'
        if o['center'] != [m // 2]:
            return f'remove_readout_os {c["n0"]} -> {m}: center_sample {o["center"]} after cropping a centred readout, kx = 0 is at sample {m // 2}'
        return None
    if o['lin_res'] > 1e-4:
        return f'compress_coils is not a linear map of the coil axis (residual {o["lin_res"]:.3g})'
    if o['orth'] > 1e-4 or o['idem'] > 1e-4:
        return f'compression matrix: |M M^H - I| = {o["orth"]:.3g}, |P^2 - P| = {o["idem"]:.3g}: not an orthogonal projection'
    if abs(o['energy'] - o['best']) > 1e-4 and abs(o['energy_c'] - o['best_c']) > 1e-4:
        return (f'compressed coils keep {o["energy"]:.5f} ({o["energy_c"]:.5f} after mean removal) of the energy, the dominant subspace keeps '
                f'{o["best"]:.5f} ({o["best_c"]:.5f})')
    return None


def descr_numeric(c):
    return {'kind': c['kind'], 'parity': f'{"even" if c["n0"] % 2 == 0 else "odd"}->{"even" if c["recon"] % 2 == 0 else "odd"}' if c['kind'] == 'os' else ''}


def extra_checks(ctx):
    shutil.rmtree(_tmpdir(), ignore_errors=True)


FAMILIES = [
    Family('transform_sequence', gen_seq, impl_seq_cached, coq_seq, PREAMBLE, cmp_seq, oracle_seq,
           nontrivial=lambda c: any(o['op'] in ('split_k1', 'split_k2', 'select', 'rearrange', 'remove_os') for o in c['ops']),
           descr=descr_seq, shard=20, theorem='C15_pairing, C15_multiset_*, C15_os_crop_window, C15_os_center_sample_consistent, C15_split_label_shape(_refuted)'),
    Family('split_idx', gen_sidx, impl_sidx, coq_sidx, PREAMBLE, cmp_sidx, oracle_sidx, theorem='C15_split_idx_*'),
    Family('numeric_claims', gen_numeric, impl_numeric, None, '', None, oracle_numeric, descr=descr_numeric,
           theorem='C15_os_centred_symmetric (kx / center_sample of a centred readout); implementation-level: remove_readout_os image claim, compress_coils projector'),
]
