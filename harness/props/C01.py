"""C01 - adjoint identity <A u, v> = <u, A^H v> for every operator the library can construct."""
import numpy as np
import torch

import opzoo
import vlib
from vlib import Family, glit, glist, natlit

LEVEL = 'proof'
RULE = ('operator configurations drawn per class by harness/opzoo.py (shapes, dims encodings, parities, trajectories incl. repeated/'
        'out-of-range/permuted samples, stencil and pad modes, einsum rules, wavelet families, interpolation modes) and random expression '
        'trees over @ + * .H; for each the dense forward and adjoint matrices are taken from basis vectors (complex128). Non-trivial = '
        'dense size >= 2 in domain and range; distinct by configuration hash.')
TRUSTED_BASE = ['translator harness/translate/linop.py (ast -> Gallina for the adjoint methods and gram rules of LinearOperator.py; fail-closed)',
                'torch kernels (F.pad, take_along_dim, scatter_add_, conv1d, einsum, fft), einops, ptwt, torchkbnufft, aten grid_sampler: '
                'oracles whose contract as used by mrpro is what the models state and what the correspondence validates',
                'wavelet / FFT / NUFFT / grid sampling / slice projection / PCA: adjointness decided on the implementation by the dense '
                'identity G = F^H (no Coq model of third-party numerics); FFT has a Coq model under C03']
ASSUMPTIONS = ['basis-vector matrices determine a linear operator (C02 checks linearity separately)']
PREAMBLE = opzoo.PREAMBLE

TOL = {'FastFourierOp': 1e-10, 'WaveletOp': 1e-9, 'PCACompressionOp': 1e-9, 'GridSamplingOp': 1e-9, 'SliceProjectionOp': 2e-5}


def _gen_cls(classes, nq, nt):
    def gen(rng, tier):
        n = nt if tier == 'thorough' else nq
        out = []
        for i in range(n):
            cls = classes[i % len(classes)]
            out.append(opzoo.GENERATORS[cls](rng))
        if 'CartesianSamplingOp' in classes:
            out.extend(opzoo.fixed_cart_cases())
        return out
    return gen


def impl_dense(c):
    op, in_shape = opzoo.build(c)
    F, G, out_shape = opzoo.dense(op, in_shape, opzoo.dtype_of(c))
    ip = _inner_product_check(op, in_shape, out_shape, opzoo.dtype_of(c))
    return {'ip': ip, 'F': [[[v.real, v.imag] for v in col] for col in F.T.tolist()], 'G': [[[v.real, v.imag] for v in col] for col in G.T.tolist()],
            'in': list(in_shape), 'out': out_shape}


def _inner_product_check(op, in_shape, out_shape, dt, seed=7):
    """<A u, v> - <u, A^H v> for random Gaussian-integer u, v: the statement itself, "for real and complex data": besides the operator's
    own dtype also a real-dtype u and/or a real-dtype v (where the operator accepts them; a dtype it rejects by raising is skipped).
    Returns the worst combination."""
    g = torch.Generator().manual_seed(seed)

    def rnd(shape, d):
        re = torch.randint(-4, 5, shape, generator=g).to(torch.float64)
        im = torch.randint(-4, 5, shape, generator=g).to(torch.float64)
        return (re + 1j * im).to(d) if d.is_complex else re.to(d)
    real_dt = {torch.complex128: torch.float64, torch.complex64: torch.float32}.get(dt, dt)
    combos = [(dt, dt)] + ([(real_dt, dt), (dt, real_dt), (real_dt, real_dt)] if dt.is_complex else [])
    worst = None
    for du, dv in combos:
        u, v = rnd(list(in_shape), du), rnd(list(out_shape), dv)
        try:
            (au,), (ahv,) = op(u), op.adjoint(v)
        except (RuntimeError, ValueError, TypeError):
            if (du, dv) == (dt, dt):
                raise
            continue       # this operator does not accept that dtype at all (e.g. torch.einsum with mixed dtypes)
        if list(au.shape) != list(out_shape) or list(ahv.shape) != list(in_shape):
            if (du, dv) == (dt, dt):
                raise AssertionError(f'shapes: A u {list(au.shape)} vs {list(out_shape)}, A^H v {list(ahv.shape)} vs {list(in_shape)}')
            continue
        lhs = torch.vdot(v.reshape(-1).to(torch.complex128), au.reshape(-1).to(torch.complex128))
        rhs = torch.vdot(ahv.reshape(-1).to(torch.complex128), u.reshape(-1).to(torch.complex128))
        scale = max(1.0, abs(lhs), abs(rhs))
        r = [float(abs(lhs - rhs)) / scale, [lhs.real.item(), lhs.imag.item()], [rhs.real.item(), rhs.imag.item()], f'u {du}, v {dv}'.replace('torch.', '')]
        if worst is None or r[0] > worst[0]:
            worst = r
    return worst


def _mat(o, key):
    a = np.array(o[key], dtype=np.float64)
    if a.size == 0:
        return np.zeros((0, 0), dtype=np.complex128)
    return (a[..., 0] + 1j * a[..., 1]).T  # columns were stored


def oracle_adjoint(c, o):
    if isinstance(o, dict) and 'raises' in o:
        return f'constructing/applying {c["cls"]} raised {o["raises"]}: {o.get("msg")}'
    F, G = _mat(o, 'F'), _mat(o, 'G')
    if F.shape != G.T.shape:
        return f'adjoint maps to a space of different size: F {F.shape} G {G.shape}'
    tol = TOL.get(c['cls'], 0.0)
    if 'ip' in o and o['ip'][0] > max(tol, 1e-12):
        return f'<A u, v> = {o["ip"][1]} but <u, A^H v> = {o["ip"][2]} for random u, v (seed 7; dtypes {o["ip"][3] if len(o["ip"]) > 3 else "complex"}) of shapes {o["in"]}, {o["out"]}'
    D = np.abs(G - F.conj().T)
    scale = max(1.0, np.abs(F).max() if F.size else 1.0)
    if D.size and D.max() > tol * scale:
        j, i = np.unravel_index(np.argmax(D), D.shape)
        return (f'<A e_{j}, e_{i}> = {F[i, j]} but <e_{j}, A^H e_{i}> = {np.conj(G[j, i])} '
                f'(u = e_{j} in the domain {o["in"]}, v = e_{i} in the range {o["out"]}; max deviation {D.max():.3g})')
    return None


def coq_dense(c):
    expr, _ = opzoo.coq_linop(c)
    return f'dense ({expr})'


def cmp_dense(c, o, m):
    if isinstance(o, dict) and 'raises' in o:
        return f'impl raises {o["raises"]}'
    _, scale = opzoo.coq_linop(c)
    mf, ma = m
    F = (np.array(o['F']) * scale)
    G = (np.array(o['G']) * scale)
    MF = np.array(mf, dtype=np.float64).reshape(F.shape) if F.size else F
    MA = np.array(ma, dtype=np.float64).reshape(G.shape) if G.size else G
    if F.shape != MF.shape or not np.array_equal(F, MF):
        bad = np.argwhere(F != MF)[0] if F.shape == MF.shape else None
        return f'forward matrix differs from the model at (column,row,re/im) {bad}'
    if G.shape != MA.shape or not np.array_equal(G, MA):
        bad = np.argwhere(G != MA)[0] if G.shape == MA.shape else None
        return f'adjoint matrix differs from the model at (column,row,re/im) {bad}'
    return None


def _axis_permuting(c):
    """SliceProjectionOp with a rotation given by a quaternion whose matrix is a signed permutation other than a diagonal one: the
    configuration of open finding KF-C20-1 (NaN rows / halved borders of the projection matrix)"""
    q = np.array(c['quat'], dtype=np.float64)
    if not np.linalg.norm(q):
        return False
    x, y, z, w = q / np.linalg.norm(q)
    m = np.array([[1 - 2 * (y * y + z * z), 2 * (x * y - z * w), 2 * (x * z + y * w)], [2 * (x * y + z * w), 1 - 2 * (x * x + z * z), 2 * (y * z - x * w)],
                  [2 * (x * z - y * w), 2 * (y * z + x * w), 1 - 2 * (x * x + y * y)]])
    return bool(np.all(np.minimum(np.abs(m), np.abs(np.abs(m) - 1)) < 1e-9) and not np.allclose(np.abs(m), np.eye(3)))


def descr(c):
    d = {k: v for k, v in c.items() if isinstance(v, (str, int, bool, float))}
    if c.get('cls') == 'SliceProjectionOp' and c.get('rot') == 'quat':
        d['axis_permuting'] = _axis_permuting(c)
    if c.get('cls') == 'WaveletOp':
        import pywt
        d['wavelet_ndim'] = len(c['domain'])
        # level=None selects the highest possible level; for a filter as long as the axis that is level 0 (the transform is the identity)
        d['zero_level'] = bool(c.get('level') is None and pywt.dwtn_max_level(c['domain'], c['wavelet']) == 0)
    return d


# ---- random expression trees over the combinators -----------------------------------------------------
def _nonzero(z):
    """a python scalar 0 turns the operand into ZeroOp() (scalar result): that shortcut and known finding KF-03 belong to C04"""
    return z if any(z) else [1, 1]


def gen_tree(rng, tier):
    def leaf(m, n):
        return {'t': 'leaf', 'm': m, 'n': n, 'M': opzoo.rand_gauss(rng, m * n, -2, 2)}

    def tree(m, n, depth):
        if depth == 0 or rng.random() < 0.25:
            return leaf(m, n)
        k = rng.choice(['comp', 'sum', 'prodr_s', 'prodr_t', 'prodl_s', 'prodl_t', 'adj'])
        if k == 'comp':
            p = rng.randint(1, 4)
            return {'t': 'comp', 'a': tree(m, p, depth - 1), 'b': tree(p, n, depth - 1)}
        if k == 'sum':
            return {'t': 'sum', 'a': tree(m, n, depth - 1), 'b': tree(m, n, depth - 1)}
        if k == 'prodr_s':
            return {'t': 'prodr', 's': [_nonzero(opzoo.rand_gauss(rng, 1)[0])] * m, 'scalar': True, 'a': tree(m, n, depth - 1)}
        if k == 'prodr_t':
            return {'t': 'prodr', 's': opzoo.rand_gauss(rng, m), 'scalar': False, 'a': tree(m, n, depth - 1)}
        if k == 'prodl_s':
            return {'t': 'prodl', 's': [_nonzero(opzoo.rand_gauss(rng, 1)[0])] * n, 'scalar': True, 'a': tree(m, n, depth - 1)}
        if k == 'prodl_t':
            return {'t': 'prodl', 's': opzoo.rand_gauss(rng, n), 'scalar': False, 'a': tree(m, n, depth - 1)}
        return {'t': 'adj', 'a': tree(n, m, depth - 1)}
    fixed = []
    for m in (2, 3):
        A, B = leaf(m, m), leaf(m, m)
        idl = {'t': 'id', 'n': m}
        s3 = {'t': 'sum', 'a': {'t': 'sum', 'a': idl, 'b': A}, 'b': B}      # IdentityOp() + A + B: the first summand returns its input
        fixed += [s3, {'t': 'adj', 'a': s3}, {'t': 'prodr', 's': [[0, 2]] * m, 'scalar': True, 'a': s3},
                  {'t': 'comp', 'a': {'t': 'adj', 'a': s3}, 'b': s3}, {'t': 'sum', 'a': {'t': 'sum', 'a': {'t': 'comp', 'a': {'t': 'adj', 'a': A}, 'b': A}, 'b': idl}, 'b': B}]
    fixed = [{'cls': 'tree', 'm': _tree_rows(t_), 'n': _tree_cols(t_), 'tree': t_} for t_ in fixed]
    n = 40 if tier == 'quick' else 800
    return fixed + [{'cls': 'tree', 'm': (m := rng.randint(1, 4)), 'n': (nn := rng.randint(1, 4)), 'tree': tree(m, nn, rng.randint(1, 3))} for _ in range(n)]


def _tree_rows(t):
    k = t['t']
    if k == 'leaf':
        return t['m']
    if k == 'id':
        return t['n']
    if k == 'adj':
        return _tree_cols(t['a'])
    return _tree_rows(t['a'])


def _tree_cols(t):
    k = t['t']
    if k == 'leaf':
        return t['n']
    if k == 'id':
        return t['n']
    if k == 'adj':
        return _tree_rows(t['a'])
    if k == 'comp':
        return _tree_cols(t['b'])
    return _tree_cols(t['a'])


def _build_tree(t):
    import mrpro.operators as ops
    k = t['t']
    if k == 'id':
        return ops.IdentityOp()
    if k == 'leaf':
        return ops.EinsumOp(opzoo.to_c(t['M'], [t['m'], t['n']]), '... i j, ... j -> ... i')
    if k == 'comp':
        return _build_tree(t['a']) @ _build_tree(t['b'])
    if k == 'sum':
        return _build_tree(t['a']) + _build_tree(t['b'])
    if k in ('prodr', 'prodl'):
        s = complex(*t['s'][0]) if t['scalar'] else opzoo.to_c(t['s'], [len(t['s'])])
        a = _build_tree(t['a'])
        return s * a if k == 'prodr' else a * s
    return _build_tree(t['a']).H


def _coq_tree(t):
    k = t['t']
    if k == 'id':
        return f'(idop (R:=GRing) {natlit(t["n"])})'
    if k == 'leaf':
        m, n = t['m'], t['n']
        rows = [t['M'][i * n:(i + 1) * n] for i in range(m)]
        return f'(matop (R:=GRing) {natlit(m)} {natlit(n)} (gmat [{"; ".join(glist(r) for r in rows)}]))'
    if k == 'comp':
        return f'(comp {_coq_tree(t["a"])} {_coq_tree(t["b"])})'
    if k == 'sum':
        return f'(lsum {_coq_tree(t["a"])} {_coq_tree(t["b"])})'
    if k == 'prodr':
        return f'(prod_right (gvec {glist(t["s"])}) {_coq_tree(t["a"])})'
    if k == 'prodl':
        return f'(prod_left {_coq_tree(t["a"])} (gvec {glist(t["s"])}))'
    return f'(adjop {_coq_tree(t["a"])})'


def impl_tree(c):
    op = _build_tree(c['tree'])
    import mrpro.operators as ops
    if isinstance(op, ops.ZeroOp):
        return {'zero': True}
    F, G, out_shape = opzoo.dense(op, [c['n']])
    ip = _inner_product_check(op, [c['n']], out_shape, torch.complex128)
    return {'ip': ip, 'F': [[[v.real, v.imag] for v in col] for col in F.T.tolist()], 'G': [[[v.real, v.imag] for v in col] for col in G.T.tolist()],
            'in': [c['n']], 'out': out_shape}


def cmp_tree(c, o, m):
    if isinstance(o, dict) and o.get('zero'):
        mf, ma = m
        return None if all(v == (0, 0) for col in mf for v in col) else 'library returned ZeroOp for a non-zero expression'
    return cmp_dense({'cls': 'tree'}, o, m)


def oracle_tree(c, o):
    if isinstance(o, dict) and o.get('zero'):
        return None
    return oracle_adjoint(c, o)


opzoo.coq_linop_tree = _coq_tree

WAVELETS = ['haar', 'db2', 'bior2.2', 'sym2', 'coif1', 'bior1.1', 'rbio1.3', 'db3', 'db4', 'sym3', 'bior1.3', 'rbio2.2', 'bior3.1']


def gen_wavelets(rng, tier):
    out = []
    for i in range(13 if tier == 'quick' else 260):
        c = opzoo.gen_wavelet(rng)
        c['wavelet'] = WAVELETS[i % len(WAVELETS)]
        if i < 13:
            c['level'] = 1 + (i % 2)
        out.append(c)
    # fixed: 1-, 2- and 3-D transforms with an explicit level below the maximal one, and with the maximal / default one
    for dom in ([8], [8, 8], [4, 4, 4], [8, 4, 4]):
        for lvl in (1, None):
            for fam in ('haar', 'db2'):
                out.append({'cls': 'WaveletOp', 'wavelet': fam, 'domain': dom, 'batch': [], 'level': lvl, 'complex': True})
    return out



# ---- WaveletOp against the Coq filter-bank model (Model/Wavelet.v): exact model of ptwt's zero-mode conv / conv_transpose ----
FB_WAVELETS = ['haar', 'db2', 'db3', 'sym2', 'sym4', 'coif1', 'bior1.1', 'bior2.2', 'rbio1.3', 'bior1.3', 'db4', 'bior3.1']


def _fb_int(wavelet):
    """pywt's float64 filter coefficients are dyadic rationals: scale all four filters by one power of two to integers"""
    import pywt
    from fractions import Fraction
    fb = [[Fraction(float(v)) for v in f] for f in pywt.Wavelet(wavelet).filter_bank]
    s = max(v.denominator for f in fb for v in f).bit_length() - 1
    return s, [[int(v * 2 ** s) for v in f] for f in fb]


def gen_filter_bank(rng, tier):
    import pywt
    out = []
    fixed = [('haar', 6, 2), ('haar', 8, None), ('db2', 8, 1), ('db2', 10, 2), ('bior2.2', 12, 1), ('db3', 12, 1), ('sym2', 14, None)]
    for i in range(len(fixed) + (12 if tier == 'quick' else 150)):
        if i < len(fixed):
            w, n, level = fixed[i]
        else:
            w = FB_WAVELETS[i % len(FB_WAVELETS)]
            L = pywt.Wavelet(w).dec_len
            n = 2 * rng.randint(max(1, L // 2), 9)
            level = rng.choice([1, 1, 2, None]) if L <= 6 else rng.choice([1, None])
        s, fb = _fb_int(w)
        lvl = level if level is not None else pywt.dwt_max_level(n, pywt.Wavelet(w).dec_len)
        out.append({'cls': 'WaveletOp', 'wavelet': w, 'n': n, 'level': level, 'model_level': lvl, 'scale_exp': s, 'filters': fb})
    # two dimensions (wavedec2 / waverec2): the 1-D filter bank along the last axis, then along the first
    fixed2 = [('haar', 4, 6, 1), ('haar', 4, 4, 2), ('db2', 4, 6, 1), ('bior2.2', 6, 6, 1), ('db2', 8, 6, None)]
    for i in range(len(fixed2) + (3 if tier == 'quick' else 40)):
        if i < len(fixed2):
            w, n, n2, level = fixed2[i]
        else:
            w = ['haar', 'db2', 'sym2', 'bior1.3', 'db3'][i % 5]
            L = pywt.Wavelet(w).dec_len
            n, n2 = 2 * rng.randint(max(1, L // 2), 4), 2 * rng.randint(max(1, L // 2), 4)
            level = rng.choice([1, 1, None])
        s, fb = _fb_int(w)
        lvl = level if level is not None else pywt.dwtn_max_level((n, n2), w)
        out.append({'cls': 'WaveletOp', 'wavelet': w, 'n': n, 'n2': n2, 'level': level, 'model_level': lvl, 'scale_exp': s, 'filters': fb})
    # three dimensions (wavedec3 / waverec3), explicit level (the highest possible level 0 in 3-D is open finding KF-07)
    for w, n, n2, n3, level in [('haar', 4, 4, 4, 1), ('haar', 4, 2, 6, 1)] + ([('db2', 4, 4, 4, 1), ('haar', 4, 4, 4, 2), ('sym2', 4, 6, 4, 1)] if tier != 'quick' else []):
        s, fb = _fb_int(w)
        out.append({'cls': 'WaveletOp', 'wavelet': w, 'n': n, 'n2': n2, 'n3': n3, 'level': level, 'model_level': level, 'scale_exp': s, 'filters': fb})
    return out


def impl_filter_bank(c):
    import mrpro.operators as ops
    dom = (c['n'],) if 'n2' not in c else ((c['n'], c['n2']) if 'n3' not in c else (c['n'], c['n2'], c['n3']))
    op = ops.WaveletOp(domain_shape=dom, dim=tuple(range(-len(dom), 0)), wavelet_name=c['wavelet'], level=c['level'])
    F, G, out_shape = opzoo.dense(op, list(dom), torch.float64)
    return {'F': np.real(F).T.tolist(), 'G': np.real(G).T.tolist(), 'out': out_shape, 'shapes': [list(map(int, sh)) for sh in op.coefficients_shape]}


def coq_filter_bank(c):
    dl, dh, rl, rh = (vlib.zlist(f) for f in c['filters'])
    if 'n3' in c:
        A = f'(wavedec3_Z {natlit(c["model_level"])} {natlit(len(c["filters"][0]))} {natlit(c["n"])} {natlit(c["n2"])} {natlit(c["n3"])} {dl} {dh} {rl} {rh})'
    elif 'n2' in c:
        A = f'(wavedec2_Z {natlit(c["model_level"])} {natlit(len(c["filters"][0]))} {natlit(c["n"])} {natlit(c["n2"])} {dl} {dh} {rl} {rh})'
    else:
        A = f'(wavedec_Z {natlit(c["model_level"])} {natlit(len(c["filters"][0]))} {natlit(c["n"])} {dl} {dh} {rl} {rh})'
    return f'(dense_fwd {A}, dense_adj {A}, andb (filters_match_b {dl} {rl}) (filters_match_b {dh} {rh}))'


def _band_scales(c, ncoef):
    """coefficient j of the stack [a_l, d_l, ..., d_1] went through (level - band + 1) filter stages, each scaled by 2^s"""
    L, n, lvl = len(c['filters'][0]), c['n'], c['model_level']
    n2, two, n3, three = c.get('n2', 1), 'n2' in c, c.get('n3', 1), 'n3' in c
    sizes = []
    for _ in range(lvl):
        n = (n + L - 1) // 2
        n2 = (n2 + L - 1) // 2 if two else 1
        n3 = (n3 + L - 1) // 2 if three else 1
        sizes.append(n * n2 * n3)
    nb = 7 if three else (3 if two else 1)     # detail bands per level; in d dimensions every level applies d filter stages
    k = 3 if three else (2 if two else 1)
    depth = ([k * lvl] * sizes[-1] + [k * d for d in range(lvl, 0, -1) for _ in range(nb * sizes[d - 1])]) if lvl else [0] * (c['n'] * c.get('n2', 1) * c.get('n3', 1))
    return depth if len(depth) == ncoef else None


def cmp_filter_bank(c, o, m):
    if isinstance(o, dict) and 'raises' in o:
        return f'impl raises {o["raises"]}: {o.get("msg")}'
    from fractions import Fraction
    mf, ma, orth = m
    F, G = np.array(o['F'], dtype=np.float64), np.array(o['G'], dtype=np.float64)     # F[j][i] = (A e_j)_i ; G[i][j] = (A^H e_i)_j
    if len(mf) != F.shape[0] or (len(mf) and len(mf[0]) != F.shape[1]):
        return f'number of coefficients: implementation {F.shape[1]}, model {len(mf[0]) if mf else 0} (levels of sizes per WaveletOp.coefficients_shape {o["shapes"]})'
    depth = _band_scales(c, F.shape[1])
    if depth is None:
        return 'band layout of the model differs from the implementation'
    s = c['scale_exp']
    MF = np.array([[float(Fraction(v, 2 ** (s * depth[i]))) for i, v in enumerate(col)] for col in mf], dtype=np.float64)
    MA = np.array([[float(Fraction(v, 2 ** (s * depth[i]))) for v in row] for i, row in enumerate(ma)], dtype=np.float64)
    for name, X, MX in (('forward (ptwt.wavedec, mode zero)', F, MF), ('adjoint (ptwt.waverec)', G, MA)):
        if X.shape != MX.shape:
            return f'{name}: shape {X.shape} vs model {MX.shape}'
        d = np.abs(X - MX)
        if d.size and d.max() > 1e-12 * max(1.0, np.abs(MX).max()):
            k = np.unravel_index(np.argmax(d), d.shape)
            return f'{name} matrix differs from the filter-bank model at {tuple(int(v) for v in k)}: {X[k]} vs {MX[k]}'
    import pywt
    if bool(orth) != bool(pywt.Wavelet(c['wavelet']).orthogonal) and c['wavelet'] not in ('bior1.1', 'rbio1.1'):
        return f'filters_match_b = {orth} but pywt says orthogonal = {pywt.Wavelet(c["wavelet"]).orthogonal}'
    return None


def oracle_filter_bank(c, o):
    if isinstance(o, dict) and 'raises' in o:
        return f'constructing/applying WaveletOp raised {o["raises"]}: {o.get("msg")}'
    F, G = np.array(o['F'], dtype=np.float64), np.array(o['G'], dtype=np.float64)
    D = np.abs(G - F.T)
    if D.size and D.max() > 1e-9:
        i, j = np.unravel_index(np.argmax(D), D.shape)
        return f'<A e_{j}, e_{i}> = {F[j, i]} but <e_{j}, A^H e_{i}> = {G[i, j]} ({"3" if "n3" in c else ("2" if "n2" in c else "1")}-D WaveletOp {c["wavelet"]}, n={c["n"]}{"x" + str(c["n2"]) if "n2" in c else ""}{"x" + str(c["n3"]) if "n3" in c else ""}, level={c["level"]})'
    return None


def descr_filter_bank(c):
    d = descr({'cls': 'WaveletOp', 'wavelet': c['wavelet'], 'domain': [c['n']] + ([c['n2']] if 'n2' in c else []) + ([c['n3']] if 'n3' in c else []), 'level': c['level']})
    return d


def gen_grid_modes(rng, tier):
    """every interpolation x padding x align_corners combination, with sample positions outside [-1, 1]"""
    out = []
    for rep in range(1 if tier == 'quick' else 12):
        for interp in ('bilinear', 'nearest', 'bicubic'):
            for pad in ('zeros', 'border', 'reflection'):
                for align in (False, True):
                    c = opzoo.gen_grid(rng)
                    if interp == 'bicubic':
                        c['dim'], c['input'][0] = 2, 1
                        c['out'] = c['out'][-2:]
                    n = c['B'] * max(c.get('B2', 0), 1) * opzoo.prod(c['out']) * c['dim']
                    c['grid'] = [rng.randint(-20, 20) / 8 for _ in range(n)]
                    c.update({'interp': interp, 'pad': pad, 'align': align})
                    out.append(c)
    return out


def gen_fourier_ops(rng, tier):
    from props import C03
    cs = C03.gen_fourier(rng, 'quick')[: (24 if tier == 'quick' else 36)]
    for c in cs:
        c['cls'] = 'FourierOp'
    return cs


def impl_fourier_op(c):
    from props import C03
    try:
        op = C03.build_fourier(c)
    except NotImplementedError:
        return {'skip': True}
    in_shape = [1, 1, *c['recon']]
    F, G, out_shape = opzoo.dense(op, in_shape)
    ip = _inner_product_check(op, in_shape, out_shape, torch.complex128)
    return {'ip': ip, 'F': [[[v.real, v.imag] for v in col] for col in F.T.tolist()], 'G': [[[v.real, v.imag] for v in col] for col in G.T.tolist()],
            'in': in_shape, 'out': out_shape}


def oracle_fourier_op(c, o):
    if isinstance(o, dict) and o.get('skip'):
        return None
    return oracle_adjoint(dict(c, cls='FourierOp'), o)


TOL['FourierOp'] = 1e-6   # torchkbnufft's interpolation pair is an exact adjoint pair up to rounding (measured 3e-15 .. 3e-9); a wrong kernel gives >= 4e-4


def translate(ctx):
    """Regenerate Gen/linop_gen.v from LinearOperator.py (adjoint methods and gram rules of the combinator classes) and re-check
    the obligations that tie them to Model/OpAlg.v and Model/Algebra.v."""
    from translate import linop
    out = vlib.COQ / 'Gen' / 'linop_gen.v'
    out.parent.mkdir(exist_ok=True)
    ok, why = linop.write(out)
    ctx.extra.setdefault('coverage', {})['translator_available'] = ok
    if not ok:
        ctx.notes.append(f'translator harness/translate/linop.py failed closed ({why}); the combinators rest on correspondence alone in this run')
        ctx.problem('proof', 'gen_linop', None, f'LinearOperator.py is outside the translated subset ({why}): the regenerated obligations cannot be stated')
        return
    ctx.obligations += linop.N_OBLIGATIONS
    rc, so, se = vlib.coqc_file(out)
    if rc == 0:
        ctx.discharged += linop.N_OBLIGATIONS
    else:
        ctx.problem('proof', 'gen_linop', None,
                    'regenerated obligation gen_*_ok (adjoint/gram of the combinator classes == model) no longer proves: ' + (se or so)[-700:])
    _translate_wavelet(ctx)


def _translate_wavelet(ctx):
    """Gen/wavelet_gen.v from WaveletOp.py: band-size recursion of __init__ == wlen of Model/Wavelet.v, ptwt calls (mode zero, level, axes) pinned"""
    from translate import wavelet
    out = vlib.COQ / 'Gen' / 'wavelet_gen.v'
    ok, why = wavelet.write(out)
    ctx.extra.setdefault('coverage', {})['wavelet_translator_available'] = ok
    if not ok:
        ctx.problem('proof', 'gen_wavelet', None, f'WaveletOp.py is outside the translated subset ({why}): the tie of Model/Wavelet.v to the source cannot be stated')
        return
    ctx.obligations += wavelet.N_OBLIGATIONS
    rc, so, se = vlib.coqc_file(out)
    if rc == 0:
        ctx.discharged += wavelet.N_OBLIGATIONS
    else:
        ctx.problem('proof', 'gen_wavelet', None, 'regenerated obligation gen_coef_len_ok / gen_sizes_example (band sizes of WaveletOp.__init__ == model) no longer proves: ' + (se or so)[-600:])


def gen_slice_batch(rng, tier):
    """SliceProjectionOp on volumes with two batch dimensions (the adjoint has to put them back in the order they came in)"""
    out = []
    for k, vb in enumerate(([2, 3], [3, 2]) if tier == 'quick' else ([2, 3], [3, 2], [2, 2], [1, 3], [2, 1, 2])):
        out.append({'cls': 'SliceProjectionOp', 'n': [4, 4, 4], 'rot': ['id', 'quat'][k % 2], 'quat': [1, -2, 0, 2], 'shift': [0.0, -0.5][k % 2],
                    'width': 2.0, 'complex': bool(k % 2), 'vol_batch': vb})
    return out


FAMILIES = [
    Family('fourier_op_adjoint', gen_fourier_ops, impl_fourier_op, None, '', None, oracle_fourier_op,
           descr=lambda c: {'cls': 'FourierOp', 'kind': c['kind']}, theorem='(implementation-level identity G = F^H; FFT path modelled under C03)'),
    Family('dense_modelled', _gen_cls(list(opzoo.MODELLED), 56, 1400), impl_dense, coq_dense, PREAMBLE, cmp_dense, oracle_adjoint,
           nontrivial=lambda c: True, descr=descr, shard=40,
           theorem='C01_zeropad, C01_matrix, C01_sensitivity, C01_density_compensation, C01_cartesian_sampling, C01_finite_difference, C01_rearrange, C01_along_axis'),
    Family('expression_tree', gen_tree, impl_tree, lambda c: f'dense {_coq_tree(c["tree"])}', PREAMBLE, cmp_tree, oracle_tree,
           descr=lambda c: {'cls': 'tree'}, shard=40, theorem='C01_closure'),
    Family('grid_sampling_modes', gen_grid_modes, impl_dense, None, '', None, oracle_adjoint, descr=descr,
           theorem='(implementation-level identity G = F^H)'),
    Family('dense_adjoint', _gen_cls(['FastFourierOp', 'PCACompressionOp', 'GridSamplingOp', 'SliceProjectionOp'], 32, 600),
           impl_dense, None, '', None, oracle_adjoint, descr=descr, theorem='(implementation-level identity G = F^H)'),
    Family('slice_volume_batch_dims', gen_slice_batch, impl_dense, None, '', None, oracle_adjoint, descr=descr,
           theorem='(implementation-level identity G = F^H)'),
    Family('wavelet_adjoint', gen_wavelets, impl_dense, None, '', None, oracle_adjoint, descr=descr,
           theorem='(implementation-level identity G = F^H)'),
    Family('wavelet_filter_bank', gen_filter_bank, impl_filter_bank, coq_filter_bank,
           'From MrVerif Require Import Base.Prelude Base.StarRing Base.Sums Model.OpAlg Model.Wavelet.', cmp_filter_bank, oracle_filter_bank,
           descr=descr_filter_bank, shard=6, theorem='C01_wavelet_multilevel, C01_wavelet_2d, C01_wavelet_3d, C01_wavelet_adjoint_iff'),
]
