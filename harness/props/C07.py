"""C07 - reconstructions equal their defining linear-algebra problems."""
import math
from fractions import Fraction

import numpy as np
import torch

import vlib
from vlib import Family, qlit, natlit

LEVEL = 'proof'
RULE = ('in-memory KData (Cartesian sampling incl. shuffled and undersampled phase encoding, 1-3 coils, 1-2 "other" entries, k1/k0 sizes 2..6) '
        'with optional csm, dcf (dyadic positive weights), noise scans and regularisation (weight 0 / dyadic, data, operator), iteration counts 0..12: '
        'DirectReconstruction against S^H F^H W y assembled from dense operator matrices, (Regularized)IterativeSENSE against the CG iterate of the '
        'dense system (numpy) and - for small systems - against the exact-rational Coq model reg_sense run on the realified system; converged '
        'runs against the dense (regularised) least-squares solution; lambda = 0 against IterativeSENSE; consistent fully sampled data against the '
        'true image; linearity/homogeneity in the data; prewhitening against unit covariance. Non-trivial = at least 2 unknowns; distinct by hash.')
TRUSTED_BASE = ['dense matrices of FourierOp / SensitivityOp / DensityCompensationOp taken from basis vectors of the implementation (validated by C01/C03/C09)',
                'numpy.linalg (solve, cholesky) as reference; torch.linalg.cholesky / solve_triangular as oracles of prewhiten_kspace',
                'rounding of the float system to multiples of 2^-24 before the exact-rational CG of the Coq model (perturbation 6e-8, comparison at 2e-4)']
ASSUMPTIONS = ['complex64 data path: comparisons at 2e-4 relative', 'CG with a fixed budget is only homogeneous (not additive) in the data: additivity is demanded of direct and converged reconstructions only']
PREAMBLE = 'From MrVerif Require Import Base.Prelude Model.CG Model.Recon.\nFrom Coq Require Import QArith.'


# ------------------------------------------------------------------------------------------------
def _make_kdata(c, data):
    import ismrmrd
    from mrpro.data import AcqInfo, EncodingLimits, KData, KHeader, KTrajectory, SpatialDimension
    from mrpro.data.AcqInfo import rearrange_acq_info_fields
    from mrpro.data.EncodingLimits import Limits
    from mrpro.data.traj_calculators import KTrajectoryCartesian
    no, nc, n1, n0 = c['n_other'], c['n_coils'], len(c['k1']), c['n_k0']
    n2 = c.get('n_k2', 1)
    acqs, sc = [], 0
    for o in range(no):
      for k2 in range(n2):
        for k1 in c['k1']:
            a = ismrmrd.Acquisition()
            a.resize(n0, nc, trajectory_dimensions=2)
            a.idx.kspace_encode_step_1 = k1
            a.idx.kspace_encode_step_2 = k2
            a.idx.repetition = o
            a.scan_counter = sc
            sc += 1
            a.center_sample = n0 // 2
            a.read_dir[:] = (1, 0, 0)
            a.phase_dir[:] = (0, 1, 0)
            a.slice_dir[:] = (0, 0, 1)
            acqs.append(a)
    info = AcqInfo.from_ismrmrd_acquisitions(acqs)
    info.apply_(lambda f: rearrange_acq_info_fields(f, '(other k2 k1) ... -> other k2 k1 ...', other=no, k2=n2, k1=n1))
    ny = c['enc_y']
    lim = EncodingLimits(k0=Limits(0, n0 - 1, n0 // 2), k1=Limits(0, ny - 1, ny // 2), k2=Limits(0, n2 - 1, n2 // 2), repetition=Limits(0, no - 1, 0))
    header = KHeader(trajectory=KTrajectoryCartesian(), encoding_limits=lim,
                     recon_matrix=SpatialDimension(n2, c['recon_y'], c['recon_x']), recon_fov=SpatialDimension(0.1, 0.2, 0.3),
                     encoding_matrix=SpatialDimension(n2, ny, n0), encoding_fov=SpatialDimension(0.1, 0.2, 0.3),
                     acq_info=info, lamor_frequency_proton=1.0e8)
    traj = KTrajectoryCartesian()(header)
    return KData(header, data, traj)


def _cdata(vals, shape, dt=torch.complex64):
    return torch.from_numpy(np.array([complex(a, b) for a, b in vals], dtype=np.complex128).reshape(shape)).to(dt)


def gen(rng, tier):
    out = []
    for _ in range(40 if tier == 'quick' else 700):
        small = rng.random() < 0.5
        ny = rng.choice([2, 4]) if small else rng.randint(2, 6)
        nx = rng.choice([1, 2]) if small else rng.randint(2, 6)
        k1 = list(range(ny))
        mode = rng.choice(['full', 'full', 'shuffled', 'under'])
        if mode == 'shuffled':
            rng.shuffle(k1)
        if mode == 'under' and ny > 2:
            k1 = sorted(rng.sample(k1, rng.randint(max(2, ny // 2), ny)))
        nc = rng.randint(1, 3)
        no = rng.choice([1, 1, 2])
        recon_y = ny if rng.random() < 0.7 else max(2, ny - rng.choice([0, 1, 2]))
        c = {'enc_y': ny, 'n_k0': nx, 'k1': k1, 'n_coils': nc, 'n_other': no, 'recon_y': recon_y, 'recon_x': nx, 'small': small,
             'csm': rng.random() < 0.7 or nc > 1, 'dcf': rng.random() < 0.5, 'noise': rng.random() < 0.3 and nc > 1,
             'lam': rng.choice([0, 0, Fraction(1, 2), 2, Fraction(1, 4)]), 'reg_data': rng.random() < 0.5, 'reg_op': rng.random() < 0.3,
             'n_iter': rng.choice([0, 1, 2, 3]) if small else rng.randint(0, 12), 'seed': rng.randrange(10 ** 6), 'mode': mode}
        c['lam'] = [Fraction(c['lam']).numerator, Fraction(c['lam']).denominator]
        c['data_scale_exp'] = rng.choice([0, 0, -10, -16, -20])   # raw data are often of small absolute magnitude
        c['n_k2'] = 1 if small or rng.random() < 0.6 else rng.choice([2, 3])
        if c['n_k2'] > 1:
            c['enc_y'], c['k1'], c['recon_y'] = min(ny, 4), list(range(min(ny, 4))), min(ny, 4)
            c['n_k0'] = c['recon_x'] = min(nx, 3)
            c['noise'] = nc > 1 and rng.random() < 0.7
        # regularisation weight as a map with some zero entries (a mask-like prior)
        c['lam_map'] = (not small) and c['lam'][0] != 0 and rng.random() < 0.4
        out.append(c)
    return out


def _setup(c):
    from mrpro.data import CsmData, DcfData, KNoise, SpatialDimension
    from mrpro.operators import FourierOp
    g = np.random.default_rng(c['seed'])
    no, nc, n1, n0 = c['n_other'], c['n_coils'], len(c['k1']), c['n_k0']
    ry, rx = c['recon_y'], c['recon_x']
    n2 = c.get('n_k2', 1)
    y = (g.integers(-3, 4, (no, nc, n2, n1, n0)) + 1j * g.integers(-3, 4, (no, nc, n2, n1, n0))).astype(np.complex64)
    y = (y * np.float32(2.0 ** c.get('data_scale_exp', 0))).astype(np.complex64)
    kd = _make_kdata(c, torch.from_numpy(y))
    fop = FourierOp.from_kdata(kd)
    csm = None
    if c['csm']:
        cs = (g.integers(-2, 3, (1, nc, n2, ry, rx)) + 1j * g.integers(-2, 3, (1, nc, n2, ry, rx))).astype(np.complex64) / 2
        cs[0, 0] += 1.5  # keep the coil combination well conditioned
        csm = CsmData(data=torch.from_numpy(cs), header=None) if False else None
        csm_t = torch.from_numpy(cs)
    else:
        csm_t = None
    dcf_t = torch.from_numpy((g.integers(1, 5, (1, n2, n1, n0)) / 2).astype(np.float32)) if c['dcf'] else None
    noise_t = None
    if c['noise']:
        nz = (g.integers(-3, 4, (nc, 1, 1, 16)) + 1j * g.integers(-3, 4, (nc, 1, 1, 16))).astype(np.complex64)
        nz += (np.eye(nc, 16) * 6).reshape(nc, 1, 1, 16).astype(np.complex64)
        noise_t = torch.from_numpy(nz)
    return kd, fop, csm_t, dcf_t, noise_t, g


def _dense(op, in_shape, dt=torch.complex64):
    n = int(np.prod(in_shape))
    cols = []
    for j in range(n):
        e = torch.zeros(n, dtype=dt)
        e[j] = 1
        (yy,) = op(e.reshape(in_shape))
        cols.append(yy.reshape(-1).to(torch.complex128))
    return torch.stack(cols, 1).numpy()


def impl(c):
    from mrpro.algorithms.reconstruction import DirectReconstruction, IterativeSENSEReconstruction, RegularizedIterativeSENSEReconstruction
    from mrpro.algorithms.prewhiten_kspace import prewhiten_kspace
    from mrpro.data import CsmData, DcfData, KNoise
    from mrpro.operators import EinsumOp, IdentityOp, SensitivityOp
    kd, fop, csm_t, dcf_t, noise_t, g = _setup(c)
    no, nc = c['n_other'], c['n_coils']
    ry, rx = c['recon_y'], c['recon_x']
    n2 = c.get('n_k2', 1)
    img_shape = [no, 1 if csm_t is not None else nc, n2, ry, rx]
    csm = CsmData(data=csm_t, header=_iheader(kd)) if csm_t is not None else None
    dcf = DcfData(data=dcf_t) if dcf_t is not None else None
    noise = KNoise(data=noise_t) if noise_t is not None else None
    lam = Fraction(*c['lam'])
    lam_t = float(lam)
    lam_vec = None
    if c.get('lam_map'):
        lam_map = torch.from_numpy((g.integers(0, 3, (1, 1, n2, ry, rx)) * float(lam)).astype(np.float32))
        lam_map.view(-1)[0] = 0.0
        lam_map.view(-1)[-1] = float(lam)
        lam_t = lam_map
        lam_vec = np.broadcast_to(lam_map.numpy().astype(np.float64), img_shape).reshape(-1)
    reg_data = torch.from_numpy(((g.integers(-2, 3, img_shape) + 1j * g.integers(-2, 3, img_shape)) * 2.0 ** c.get('data_scale_exp', 0)).astype(np.complex64)) if c['reg_data'] else 0.0
    reg_op = None
    if c['reg_op']:
        d = torch.from_numpy((g.integers(1, 4, (1, 1, n2, ry, rx))).astype(np.complex64))
        reg_op = EinsumOp(d, '... , ... -> ...')
    res = {}
    # ---- the three reconstructions ----
    direct = DirectReconstruction(kdata=None, fourier_op=fop, csm=csm, noise=noise, dcf=dcf)
    res['direct'] = _c(direct(kd).data)
    reg = RegularizedIterativeSENSEReconstruction(kdata=None, fourier_op=fop, csm=csm, noise=noise, dcf=dcf, n_iterations=c['n_iter'],
                                                  regularization_data=reg_data, regularization_weight=lam_t, regularization_op=reg_op)
    res['reg'] = _c(reg(kd).data)
    reg_conv = RegularizedIterativeSENSEReconstruction(kdata=None, fourier_op=fop, csm=csm, noise=noise, dcf=dcf, n_iterations=60,
                                                       regularization_data=reg_data, regularization_weight=lam_t, regularization_op=reg_op)
    res['reg_conv'] = _c(reg_conv(kd).data)
    it = IterativeSENSEReconstruction(kdata=None, fourier_op=fop, csm=csm, noise=noise, dcf=dcf, n_iterations=c['n_iter'])
    res['iter'] = _c(it(kd).data)
    # ---- dense description of the same problem (float64) ----
    S = SensitivityOp(csm_t) if csm_t is not None else IdentityOp()
    A = fop @ S
    Ad = _dense(A, img_shape)
    W = np.diag(np.broadcast_to(dcf_t.numpy().astype(np.float64), (no, nc, n2, len(c['k1']), c['n_k0'])).reshape(-1)) if dcf_t is not None else np.eye(Ad.shape[0])
    yv = kd.data.reshape(-1).to(torch.complex128).numpy()
    if noise_t is not None:
        nz = noise_t.reshape(nc, -1).to(torch.complex128).numpy()
        cov = nz @ nz.conj().T / nz.shape[1]
        L = np.linalg.cholesky(cov)
        yw = np.linalg.solve(L, kd.data.to(torch.complex128).numpy().reshape(no, nc, -1).transpose(1, 0, 2).reshape(nc, -1))  # sample order (other, k2, k1, k0) kept
        yv = yw.reshape(nc, no, -1).transpose(1, 0, 2).reshape(-1)
        (wn,) = (prewhiten_kspace(_noise_as_kdata(kd, noise_t), noise).data,)
        wnz = wn.reshape(nc, -1).to(torch.complex128).numpy()
        res['white_cov_dev'] = float(np.abs(wnz @ wnz.conj().T / wnz.shape[1] - np.eye(nc)).max())
    B = np.eye(Ad.shape[1]) if reg_op is None else np.diag(np.tile(d.reshape(-1).numpy().astype(np.complex128), no * img_shape[1]))
    x0 = reg_data.reshape(-1).to(torch.complex128).numpy() if c['reg_data'] else np.zeros(Ad.shape[1])
    Lm = np.diag(lam_vec) if lam_vec is not None else float(lam) * np.eye(Ad.shape[1])
    H = Ad.conj().T @ W @ Ad + Lm @ B
    b = Ad.conj().T @ W @ yv + Lm @ x0
    res['H'] = [[[v.real, v.imag] for v in row] for row in H.tolist()]
    res['b'] = [[v.real, v.imag] for v in b.tolist()]
    res['direct_ref'] = [[v.real, v.imag] for v in (Ad.conj().T @ W @ yv).tolist()]
    # ---- linearity of the direct reconstruction, homogeneity of the iterative one ----
    kd2 = _make_kdata(c, kd.data.flip(-1) * (1 + 1j))
    s, t = 2.0, -1.5
    kd3 = _make_kdata(c, s * kd.data + t * kd2.data)
    res['direct_lin_dev'] = float((direct(kd3).data - (s * direct(kd).data + t * direct(kd2).data)).abs().max())
    kd4 = _make_kdata(c, 3.0 * kd.data)
    reg_h = RegularizedIterativeSENSEReconstruction(kdata=None, fourier_op=fop, csm=csm, noise=noise, dcf=dcf, n_iterations=c['n_iter'],
                                                    regularization_data=3.0 * reg_data if c['reg_data'] else 0.0, regularization_weight=lam_t, regularization_op=reg_op)
    res['homog_dev'] = float((reg_h(kd4).data - 3.0 * reg(kd).data).abs().max())
    # ---- consistent, fully sampled data reproduce the true image ----
    if c['mode'] != 'under' and c['recon_y'] <= c['enc_y'] and noise_t is None:
        xt = (g.integers(-3, 4, img_shape) + 1j * g.integers(-3, 4, img_shape)).astype(np.complex64)
        (yt,) = A(torch.from_numpy(xt))
        kdt = _make_kdata(c, yt)
        rec = IterativeSENSEReconstruction(kdata=None, fourier_op=fop, csm=csm, noise=None, dcf=dcf, n_iterations=80)
        res['consistent_dev'] = float(np.abs(rec(kdt).data.numpy() - xt).max())
        res['cond'] = float(np.linalg.cond(Ad.conj().T @ W @ Ad))
    return res


def _iheader(kd):
    from mrpro.data import IHeader
    return IHeader.from_kheader(kd.header)


def _noise_as_kdata(kd, noise_t):
    """the noise scan itself as KData (coils, 1, 1, samples) so that prewhiten_kspace can be applied to it"""
    from mrpro.data import KData, KTrajectory
    nc, ns = noise_t.shape[0], noise_t.shape[-1]
    # two readouts of ns/2 samples (a single acquisition is known finding KF-C14-1 of AcqInfo)
    c = {'n_other': 1, 'n_coils': nc, 'k1': [0, 1], 'n_k0': ns // 2, 'enc_y': 2, 'recon_y': 2, 'recon_x': ns // 2}
    return _make_kdata(c, noise_t.reshape(1, nc, 1, 2, ns // 2))


def _c(t):
    return [[v.real, v.imag] for v in t.reshape(-1).to(torch.complex128).tolist()]


def _v(l):
    return np.array([complex(*v) for v in l])


def _np_cg(H, b, n):
    x = b.copy()
    r = b - H @ x
    if np.vdot(r, r).real == 0:
        return x
    p = r.copy()
    rr_prev = None
    for _ in range(n):
        rr = np.vdot(r, r).real
        if rr == 0:
            return x
        if rr_prev is not None:
            p = r + (rr / rr_prev) * p
        Hp = H @ p
        alpha = rr / np.vdot(p, Hp)
        x = x + alpha * p
        r = r - alpha * Hp
        rr_prev = rr
    return x


def oracle(c, o):
    if 'raises' in o:
        return f'reconstruction raised {o["raises"]}: {o.get("msg")}'
    H = np.array(o['H'])[..., 0] + 1j * np.array(o['H'])[..., 1]
    b = _v(o['b'])
    tol = 2e-4
    sc = 2.0 ** c.get('data_scale_exp', 0)   # magnitude of the data: every comparison is relative to it

    def rel(a, ref):
        return float(np.abs(a - ref).max() / max(sc, np.abs(ref).max()))
    if rel(_v(o['direct']), _v(o['direct_ref'])) > tol:
        return f'DirectReconstruction differs from S^H F^H W y (relative {rel(_v(o["direct"]), _v(o["direct_ref"])):.3g})'
    cond = np.linalg.cond(H)
    it_ref = _np_cg(H, b, c['n_iter'])
    if cond < 1e4 and rel(_v(o['reg']), it_ref) > 20 * tol:
        return (f'RegularizedIterativeSENSE ({c["n_iter"]} iterations, lambda={c["lam"]}) is not the CG iterate of (A^H W A + lambda B) x = A^H W y + lambda x0: '
                f'relative {rel(_v(o["reg"]), it_ref):.3g}')
    if cond < 1e3:
        sol = np.linalg.solve(H, b)
        if rel(_v(o['reg_conv']), sol) > 50 * tol:
            return f'converged RegularizedIterativeSENSE differs from the regularised least-squares image by {rel(_v(o["reg_conv"]), sol):.3g} (cond {cond:.3g})'
    if c['lam'][0] == 0 and rel(_v(o['reg']), _v(o['iter'])) > 1e-6:
        return 'with lambda = 0 the regularised reconstruction differs from IterativeSENSEReconstruction'
    if o['direct_lin_dev'] > 1e-3 * max(sc, np.abs(_v(o['direct_ref'])).max()):
        return f'DirectReconstruction is not linear in the data (deviation {o["direct_lin_dev"]:.3g})'
    if cond < 1e4 and o['homog_dev'] > 1e-2 * max(sc, np.abs(it_ref).max()):
        return f'iterative reconstruction is not homogeneous in the data (deviation {o["homog_dev"]:.3g})'
    if 'consistent_dev' in o and o.get('cond', 1e9) < 1e3 and o['consistent_dev'] > 1e-2:   # (true image of magnitude ~3)
        return f'consistent fully sampled data do not reproduce the true image (deviation {o["consistent_dev"]:.3g}, cond {o["cond"]:.3g})'
    if 'white_cov_dev' in o and o['white_cov_dev'] > 1e-4:
        return f'prewhitened noise scan does not have unit covariance (deviation {o["white_cov_dev"]:.3g})'
    return None


# ---- call history: recalculate_fourierop(kdata_b) on an object configured for another acquisition ----------------------
def gen_recalc(rng, tier):
    out = []
    for _ in range(6 if tier == 'quick' else 80):
        ny = rng.randint(5, 7)
        lines = list(range(ny))
        ka = sorted(rng.sample(lines, ny - 2))
        kb = sorted(rng.sample(lines, ny - 2))
        while kb == ka:
            kb = sorted(rng.sample(lines, ny - 2))
        out.append({'enc_y': ny, 'n_k0': rng.randint(2, 4), 'k1a': ka, 'k1b': kb, 'n_coils': rng.randint(1, 2), 'seed': rng.randrange(10 ** 6),
                    'cls': rng.choice(['direct', 'iterative'])})
    return out


def impl_recalc(c):
    from mrpro.algorithms.reconstruction import DirectReconstruction, IterativeSENSEReconstruction
    g = np.random.default_rng(c['seed'])
    res = {}

    def mk(k1):
        cfg = {'n_other': 1, 'n_coils': c['n_coils'], 'k1': k1, 'n_k0': c['n_k0'], 'enc_y': c['enc_y'], 'recon_y': c['enc_y'], 'recon_x': c['n_k0']}
        d = (g.integers(-3, 4, (1, c['n_coils'], 1, len(k1), c['n_k0'])) + 1j * g.integers(-3, 4, (1, c['n_coils'], 1, len(k1), c['n_k0']))).astype(np.complex64)
        return _make_kdata(cfg, torch.from_numpy(d))
    kda, kdb = mk(c['k1a']), mk(c['k1b'])
    cls = DirectReconstruction if c['cls'] == 'direct' else IterativeSENSEReconstruction
    kw = {} if c['cls'] == 'direct' else {'n_iterations': 3}
    rec = cls(kdata=kda, csm=None, **kw)           # Fourier operator and Voronoi dcf of acquisition a
    rec.recalculate_fourierop(kdb)                   # ... now of acquisition b
    fresh = cls(kdata=kdb, csm=None, **kw)
    a, b = rec(kdb).data, fresh(kdb).data
    res['dev'] = float((a - b).abs().max() / max(1.0, float(b.abs().max())))
    res['dcf_changed'] = bool((fresh.dcf.data.flatten() != cls(kdata=kda, csm=None, **kw).dcf.data.flatten()).any()) if fresh.dcf.data.numel() == cls(kdata=kda, csm=None, **kw).dcf.data.numel() else True
    return res


def oracle_recalc(c, o):
    if 'raises' in o:
        return f'recalculate_fourierop history raised {o}'
    if o['dev'] > 1e-4:
        return (f'{c["cls"]} reconstruction after recalculate_fourierop(kdata_b) differs from a reconstruction configured for kdata_b '
                f'(relative {o["dev"]:.3g}): it does not use the operators of the acquisition it reconstructs')
    return None


FAMILIES = [Family('recalculate_history', gen_recalc, impl_recalc, None, '', None, oracle_recalc, theorem='C07_direct (W, F, S are those of the reconstructed acquisition)'),
            Family('reconstructions', gen, impl, None, '', None, oracle, nontrivial=lambda c: c['recon_y'] * c['recon_x'] >= 2,
                   descr=lambda c: {k: v for k, v in c.items() if isinstance(v, (bool, int, str))},
                   theorem='C07_direct, C07_sense_is_cg, C07_lambda_zero, C07_converged_solves')][::-1]


# ------------------------------------------------------------------------------------------------
def translate(ctx):
    """Regenerate Gen/recon_gen.v from the reconstruction classes (operator / right-hand side / regularisation guard / cg call of
    RegularizedIterativeSENSEReconstruction.forward, the operator chain of direct_reconstruction) and re-check gen_* = the model terms."""
    from translate import recon
    out = vlib.COQ / 'Gen' / 'recon_gen.v'
    out.parent.mkdir(exist_ok=True)
    ok, why = recon.write(out)
    ctx.extra.setdefault('coverage', {})['translator_available'] = ok
    ctx.obligations += recon.N_OBLIGATIONS
    if not ok:
        ctx.notes.append(f'translator harness/translate/recon.py failed closed ({why})')
        ctx.problem('proof', 'gen_recon', None, f'the reconstruction classes are outside the translated subset ({why}): the regenerated obligations cannot be stated')
        return
    rc, so, se = vlib.coqc_file(out)
    if rc == 0:
        ctx.discharged += recon.N_OBLIGATIONS
    else:
        ctx.problem('proof', 'gen_recon', None, 'regenerated obligation gen_*_ok (reconstruction classes == model terms) no longer proves: ' + (se or so)[-700:])


def extra_checks(ctx):
    """Tie to the Coq model: the returned image must be the n-th CG iterate that reg_sense computes in exact rational
    arithmetic on the (realified) system A^H W A, B, A^H W y, x0 of the same reconstruction."""
    rng = ctx.rng
    cases = [c for c in gen(rng, ctx.tier) if c['small'] and c['n_iter'] <= 3 and c['recon_y'] * c['recon_x'] * c['n_other'] <= 4][: ctx.n(12, 150)]
    exprs, keep = [], []
    for c in cases:
        try:
            o = impl(c)
        except Exception as e:  # noqa: BLE001
            ctx.problem('correspondence', 'recon_vs_coq', c, f'implementation raised {e!r}')
            continue
        H = np.array(o['H'])[..., 0] + 1j * np.array(o['H'])[..., 1]
        b = _v(o['b'])
        n = H.shape[0]
        if n > 8 or np.linalg.cond(H) > 1e3:
            continue
        sc = 2.0 ** c.get('data_scale_exp', 0)
        Hr = np.block([[H.real, -H.imag], [H.imag, H.real]])
        br = np.concatenate([b.real, b.imag]) / sc   # CG is homogeneous in the data: solve for the data divided by their magnitude

        def q(x):
            return qlit(Fraction(round(float(x) * 2 ** 24), 2 ** 24))
        Hs = '[' + '; '.join('[' + '; '.join(q(v) for v in row) + ']' for row in Hr) + ']'
        bs = '[' + '; '.join(q(v) for v in br) + ']'
        # lambda is already folded into H and b here: run the model with lam = 0 on (H, b) - C07_lambda_zero/C07_sense_is_cg
        exprs.append(f'reg_sense_run {Hs} [] (0#1) {bs} [] {natlit(c["n_iter"])}')
        keep.append((c, o))
    vals = vlib.coq_eval(ctx.work, PREAMBLE, exprs, shard=6, tag='cases_recon')
    for (c, o), mv in zip(keep, vals):
        ctx.evaluations += 1
        ctx.count('family:recon_vs_coq')
        ctx.nontrivial_keys.add('coq' + str(c['seed']))
        if isinstance(mv, Exception):
            ctx.problem('correspondence', 'recon_vs_coq', c, f'model evaluation failed: {mv}')
            continue
        status, x, _trace = mv
        ctx.traces_validated += 1
        if status != 0:
            ctx.problem('correspondence', 'recon_vs_coq', c, f'model outcome {status} (not Done)')
            continue
        xs = np.array([float(Fraction(a, b2)) for a, b2 in x])
        n = len(xs) // 2
        sc = 2.0 ** c.get('data_scale_exp', 0)
        xm = (xs[:n] + 1j * xs[n:]) * sc
        got = _v(o['reg'])
        dev = np.abs(got - xm).max() / max(sc, np.abs(xm).max())
        if dev > 4e-3:
            ctx.problem('correspondence', 'recon_vs_coq', c, f'RegularizedIterativeSENSE differs from the Coq CG model on the same system: relative {dev:.3g}',
                        expected=[[v.real, v.imag] for v in xm.tolist()], got=o['reg'])
        if len(ctx.samples) < 8:
            ctx.samples.append({'family': 'recon_vs_coq', 'case': c, 'model_x': [[v.real, v.imag] for v in xm.tolist()][:4], 'impl_x': o['reg'][:4]})
