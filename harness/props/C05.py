"""C05 - differentiating through an operator yields its adjoint."""
import numpy as np
import torch

import opzoo
import vlib
from vlib import Family, glist
from props import C01

LEVEL = 'proof'
RULE = ('operator configurations of harness/opzoo.py (every class, incl. the custom autograd functions of FourierOp/NUFFT, GridSamplingOp and '
        'SliceProjectionOp) and FourierOp on Cartesian and non-Cartesian trajectories; Gaussian-integer inputs and cotangents, real/complex/mixed '
        'dtypes; first order (torch.autograd.grad of Re<w, A x>), second order (create_graph) and forward mode (torch.func.jvp); gradients with '
        'respect to the sampling grid and the EinsumOp matrix against central finite differences. Non-trivial = domain size >= 2; distinct by hash.')
TRUSTED_BASE = ['the PyTorch autograd engine (graph recording, setup_context, vmap rule generation) and aten backward kernels: observed at run time, not modelled',
                'the expected cotangent A^H w is computed by explicit application of the adjoint (and, for the modelled classes, by the Coq model)']
ASSUMPTIONS = ["PyTorch's convention: for a real-valued loss L(y), y = A x, x.grad = A^H (dL/dy in the same convention)"]
PREAMBLE = opzoo.PREAMBLE
TOL = dict(C01.TOL)
TOL.update({'FourierOp': 1e-5, 'FourierOpNUFFT': 2e-3})
ALL = [k for k in opzoo.GENERATORS]


def gen(rng, tier):
    out = []
    for i in range(60 if tier == 'quick' else 1200):
        c = opzoo.GENERATORS[ALL[i % len(ALL)]](rng)
        c['seed'] = rng.randrange(10 ** 6)
        c['xdtype'] = rng.choice(['complex', 'complex', 'real'])
        out.append(c)
    from props import C03
    for c in C03.gen_fourier(rng, 'quick')[: (16 if tier == 'quick' else 36)]:
        c['cls'] = 'FourierOp'
        c['xdtype'] = 'complex'
        out.append(c)
        if len(out) % 3 == 0:       # the same operator differentiated at a real-valued image (gradient = Re(A^H w))
            out.append(dict(c, xdtype='real'))
    return out


def _build(c):
    if c['cls'] == 'FourierOp':
        from mrpro.data import SpatialDimension
        from mrpro.operators import FourierOp
        from props import C03
        return C03.build_fourier(c), [1, 1, *c['recon']]
    return opzoo.build(c)


def _rand(shape, g, dt):
    re = torch.randint(-3, 4, shape, generator=g).to(torch.float64)
    im = torch.randint(-3, 4, shape, generator=g).to(torch.float64)
    return (re + 1j * im).to(dt) if dt.is_complex else re.to(dt)


def _loss(y, w):
    """real-valued loss Re <w, y> (w plays the role of dL/dy)"""
    return (w.conj() * y).real.sum() if (y.is_complex() or w.is_complex()) else (w * y).sum()


def impl(c):
    try:
        op, in_shape = _build(c)
    except NotImplementedError:
        return {'skip': True}
    base = opzoo.dtype_of(c) if c['cls'] != 'FourierOp' else torch.complex128
    real_only = not base.is_complex
    dt = base if (c['xdtype'] == 'complex' or real_only) else (torch.float64 if base == torch.complex128 else torch.float32)
    g = torch.Generator().manual_seed(c['seed'])
    x = _rand(list(in_shape), g, dt).requires_grad_(True)
    if dt != base:
        # mixed dtypes (real input, complex operator): only where the forward itself accepts a real input (EinsumOp / PCACompressionOp with a
        # complex matrix reject it in torch.einsum / matmul: then the complex input is used)
        try:
            with torch.no_grad():
                op(x.detach())
        except (RuntimeError, ValueError):    # (torchkbnufft: 'For real inputs, last dimension must be size 2')
            dt = base
            g = torch.Generator().manual_seed(c['seed'])
            x = _rand(list(in_shape), g, dt).requires_grad_(True)
    (y,) = op(x)
    w = _rand(list(y.shape), g, y.dtype)
    res = {'nufft': bool(getattr(op, '_nufft_dims', [])), 'dt': str(dt), 'ydt': str(y.dtype)}
    # first order, keeping the graph for the second order
    (gx,) = torch.autograd.grad(_loss(y, w), x, create_graph=True)
    with torch.no_grad():
        (ahw,) = op.adjoint(w)
        if not x.is_complex() and ahw.is_complex():
            ahw = ahw.real
    scale = float(max(1.0, ahw.abs().max()))
    res['first'] = float((gx.detach() - ahw).abs().max()) / scale
    if c['cls'] == 'FourierOp' and x.numel() <= 64:
        # independent of op.adjoint: A^H w from the dense forward matrix (basis vectors)
        with torch.no_grad():
            Fd, _, _ = (opzoo.dense(op, in_shape, dt)[0], None, None)
        ref = torch.from_numpy(Fd.conj().T @ w.reshape(-1).to(torch.complex128).numpy()).reshape(x.shape)
        if not x.is_complex():      # gradient with respect to a real variable: Re(A^H w)  (C05_real_input_gradient)
            ref = ref.real.to(torch.complex128)
        res['first_dense'] = float((gx.detach().to(torch.complex128) - ref).abs().max()) / float(max(1.0, ref.abs().max()))
    res['gx_finite'] = bool(torch.isfinite(torch.view_as_real(gx.detach()) if gx.is_complex() else gx.detach()).all())
    # second order: d/dw Re<v, gx(w)> = A v (gx is linear in w)
    w2 = w.clone().requires_grad_(True)
    (y2,) = op(x)
    (gx2,) = torch.autograd.grad(_loss(y2, w2), x, create_graph=True)
    v = _rand(list(in_shape), g, gx2.dtype)
    try:
        (gw,) = torch.autograd.grad(_loss(gx2, v), w2, allow_unused=False)
        with torch.no_grad():
            (av,) = op(v.to(x.dtype) if not v.is_complex() or x.is_complex() else v)
            if not w2.is_complex() and av.is_complex():
                av = av.real
        res['second'] = float((gw - av).abs().max()) / float(max(1.0, av.abs().max()))
    except RuntimeError as e:
        res['second_err'] = str(e)[:120]
    # forward mode (supported by the wrapper via jvp and by plain torch ops); custom functions without jvp are skipped
    try:
        t = _rand(list(in_shape), g, dt)
        _, jv = torch.func.jvp(lambda z: op(z)[0], (x.detach(),), (t,))
        with torch.no_grad():
            (at,) = op(t)
        res['jvp'] = float((jv - at).abs().max()) / float(max(1.0, at.abs().max()))
    except (RuntimeError, NotImplementedError) as e:
        res['jvp_unsupported'] = str(e)[:80]
    # the adjoint operator is differentiable too and its backward is the operator
    u = _rand(list(y.shape), g, y.dtype).requires_grad_(True)
    (z,) = op.adjoint(u)
    wz = _rand(list(z.shape), g, z.dtype)
    (gu,) = torch.autograd.grad(_loss(z, wz), u)
    with torch.no_grad():
        (awz,) = op(wz.to(x.dtype) if x.is_complex() or not wz.is_complex() else wz)
        if not u.is_complex() and awz.is_complex():
            awz = awz.real
    res['adjoint_first'] = float((gu - awz).abs().max()) / float(max(1.0, awz.abs().max()))
    if c['cls'] in opzoo.MODELLED and x.is_complex() and y.is_complex():
        res['w'] = [[int(v.real), int(v.imag)] for v in w.reshape(-1).to(torch.complex128).tolist()]
        res['gx'] = [[v.real, v.imag] for v in gx.detach().reshape(-1).to(torch.complex128).tolist()]
    return res


def oracle(c, o):
    if o.get('skip'):
        return None
    if 'raises' in o:
        return f'{c["cls"]}: differentiating raised {o["raises"]}: {o.get("msg")}'
    tol = TOL.get(c['cls'], 0.0) or 1e-12
    if c['cls'] == 'FourierOp' and o['nufft']:
        tol = TOL['FourierOpNUFFT']
    if c['cls'] == 'GridSamplingOp' or 'float32' in o['dt'] or 'complex64' in o['dt']:
        tol = max(tol, 2e-5)
    if 'first_dense' in o and o['first_dense'] > 1e-7:
        return (f'FourierOp: autograd gradient differs from conj(F)^T w with F the dense forward matrix: relative {o["first_dense"]:.3g} '
                f'(kbwidth {c.get("kbwidth", "default")}, paths nufft={o["nufft"]})')
    for key, what in (('first', 'autograd gradient w.r.t. the input != A^H (gradient at the output)'),
                      ('second', 'second-order derivative (gradient of the gradient w.r.t. the cotangent) != A v'),
                      ('jvp', 'forward-mode derivative != A (tangent)'),
                      ('adjoint_first', 'autograd gradient through the adjoint != A (gradient at its output)')):
        if key in o and o[key] > tol:
            return f'{c["cls"]} ({o["dt"]} -> {o["ydt"]}): {what}: relative deviation {o[key]:.3g} (seed {c["seed"]})'
    if not o['gx_finite']:
        return f'{c["cls"]}: non-finite gradient'
    if 'second_err' in o:      # every operator class of the unchanged tree supports double backward ("for first and second order")
        return f'{c["cls"]} is not twice differentiable: {o["second_err"]}'
    return None


def coq(c):
    if c['cls'] not in opzoo.MODELLED:
        return '0%Z'
    expr, _ = opzoo.coq_linop(c)
    return f'dense_adj ({expr})'


def compare(c, o, m):
    """for the modelled classes: the autograd gradient equals the Coq model's adjoint applied to the cotangent (exact)"""
    if c['cls'] not in opzoo.MODELLED or 'gx' not in o:
        return None
    _, scale = opzoo.coq_linop(c)
    cols = np.array(m, dtype=np.float64)
    if cols.size == 0:
        return None
    MA = (cols[..., 0] + 1j * cols[..., 1]).T   # dom x ran
    w = np.array([complex(*v) for v in o['w']])
    gx = np.array([complex(*v) for v in o['gx']]) * scale
    if MA.shape[1] != w.shape[0] or not np.array_equal(MA @ w, gx):
        return f'autograd gradient differs from (model adjoint) . cotangent: max dev {np.abs(MA @ w - gx).max() if MA.shape[1] == w.shape[0] else "shape"}'
    return None


# ---- gradients w.r.t. operator parameters ----------------------------------------------------------
def gen_param(rng, tier):
    out = []
    for i in range(14 if tier == 'quick' else 150):
        c = opzoo.gen_grid(rng) if i % 2 == 0 or 10 <= i % 20 < 14 else opzoo.gen_einsum(rng)
        # history: the operator has already been used without a graph (torch.no_grad, grid not yet requiring grad) before its grid is differentiated
        c['history'] = 10 <= i % 20 < 14
        if c['cls'] == 'GridSamplingOp':
            c['interp'], c['complex'] = 'bilinear', False
            # keep away from the kinks of bilinear interpolation (integer pixel positions) for finite differences
            c['grid'] = [g + 0.03 for g in c['grid']]
            c['via_adjoint'] = i % 4 == 2
            if c['via_adjoint']:
                c['pad'] = ['border', 'reflection', 'zeros'][(i // 4) % 3]
        c['seed'] = rng.randrange(10 ** 6)
        out.append(c)
    # gradients w.r.t. the coil sensitivities / the density compensation weights (buffers or parameters of the operator), through forward
    # and through adjoint (added after round-6 seeded change C05-f1)
    for i in range(4 if tier == 'quick' else 40):
        c = opzoo.gen_sens(rng) if i % 2 == 0 else opzoo.gen_dcf(rng)
        c['via_adjoint'] = i % 4 >= 2
        c['seed'] = rng.randrange(10 ** 6)
        out.append(c)
    return out


def _impl_param_buffer(c):
    """d/dp Re<w, A(p) x> (or A(p)^H u) for p = csm / dcf against central finite differences of freshly built operators"""
    import mrpro.operators as ops
    g = torch.Generator().manual_seed(c['seed'])
    op, in_shape = opzoo.build(c)
    x = _rand(list(in_shape), g, torch.complex128)
    name = 'csm_tensor' if c['cls'] == 'SensitivityOp' else 'matrix'
    p0 = getattr(op, name).detach().clone().to(torch.complex128)

    def make(pp):
        from mrpro.data import CsmData
        return ops.SensitivityOp(pp) if c['cls'] == 'SensitivityOp' else ops.DensityCompensationOp(pp)

    (y0,) = make(p0)(x)
    u = _rand(list(y0.shape), g, torch.complex128)
    w = _rand(list((make(p0).adjoint(u)[0] if c['via_adjoint'] else y0).shape), g, torch.complex128)

    def f(pp):
        o = make(pp)
        return o.adjoint(u)[0] if c['via_adjoint'] else o(x)[0]
    if c['cls'] == 'SensitivityOp':      # the csm is a buffer: the tensor handed in stays part of the graph
        p = p0.clone().requires_grad_(True)
        out = f(p)
    else:                                 # the dcf becomes a torch.nn.Parameter (a new leaf): differentiate w.r.t. that parameter
        o = make(p0.clone())
        p = o.matrix.requires_grad_(True)
        out = o.adjoint(u)[0] if c['via_adjoint'] else o(x)[0]
    (gp,) = torch.autograd.grad(_loss(out, w), p, allow_unused=True)
    if gp is None:
        return {'dev': float('inf'), 'no_grad': True}
    worst, flat, eps = 0.0, p0.reshape(-1), 1e-6
    for k in range(min(flat.numel(), 16)):
        for d in (1.0, 1j):
            e = torch.zeros_like(flat)
            e[k] = d
            fd = (_loss(f((flat + eps * e).reshape(p0.shape)), w).item() - _loss(f((flat - eps * e).reshape(p0.shape)), w).item()) / (2 * eps)
            an = gp.reshape(-1)[k]
            an = an.real.item() if d == 1.0 else an.imag.item()
            worst = max(worst, abs(fd - an) / max(1.0, abs(fd)))
    return {'dev': worst}


def impl_param(c):
    if c['cls'] in ('SensitivityOp', 'DensityCompensationOp'):
        return _impl_param_buffer(c)
    g = torch.Generator().manual_seed(c['seed'])
    op, in_shape = opzoo.build(c)
    if c['cls'] == 'GridSamplingOp':
        x = torch.randint(-3, 4, in_shape, generator=g).to(torch.float64)
        if c.get('history'):
            with torch.no_grad():
                (y0,) = op(x)
                op.adjoint(torch.ones_like(y0))
            op(x)
            p = op.grid.requires_grad_(True)      # the operator's own grid tensor, switched to requires_grad after these uses
            fresh = opzoo.build(c)[0]
        else:
            p = op.grid.detach().clone().requires_grad_(True)
            fresh = op

        def f(pp):
            if pp is p and c.get('history'):
                return op(x)[0]
            fresh.grid = pp
            return fresh(x)[0]
    else:
        import mrpro.operators as ops
        x = _rand(list(in_shape), g, torch.complex128)
        op.matrix.requires_grad_(True)
        p = op.matrix  # the parameter of the operator itself

        def f(pp):
            if pp is p:
                return op(x)[0]
            return ops.EinsumOp(pp.detach(), c['rule'])(x)[0]
    if c['cls'] == 'GridSamplingOp' and c.get('via_adjoint'):
        # gradient of <w, A(grid)^H u> w.r.t. the grid (AdjointGridSample.backward w.r.t. the grid)
        u = torch.randint(-3, 4, list(op(x)[0].shape), generator=g).to(torch.float64)

        def f(pp):  # noqa: F811
            if pp is p and c.get('history'):
                return op.adjoint(u)[0]
            fresh.grid = pp
            return fresh.adjoint(u)[0]
    y = f(p)
    w = _rand(list(y.shape), g, y.dtype)
    (gp,) = torch.autograd.grad(_loss(y, w), p, allow_unused=True)
    if gp is None:
        return {'dev': float('inf'), 'no_grad': True}
    # central finite differences in every coordinate (real and imaginary direction)
    worst = 0.0
    flat = p.detach().reshape(-1)
    eps = 1e-6
    for k in range(min(flat.numel(), 24)):
        dirs = [1.0] if not p.is_complex() else [1.0, 1j]
        for d in dirs:
            e = torch.zeros_like(flat)
            e[k] = d
            lp = _loss(f((flat + eps * e).reshape(p.shape)), w).item()
            lm = _loss(f((flat - eps * e).reshape(p.shape)), w).item()
            fd = (lp - lm) / (2 * eps)
            an = gp.reshape(-1)[k]
            an = an.real.item() if d == 1.0 else an.imag.item() if p.is_complex() else an.item()
            worst = max(worst, abs(fd - an) / max(1.0, abs(fd)))
    return {'dev': worst}


def oracle_param(c, o):
    if 'raises' in o:
        return f'{c["cls"]}: gradient w.r.t. a parameter raised {o["raises"]}: {o.get("msg")}'
    if o.get('no_grad'):
        return (f'{c["cls"]}: no gradient reaches the operator parameter (grid / csm / dcf / matrix){" after the operator had been used without a graph" if c.get("history") else ""}: '
                'autograd returned None')
    if o['dev'] > 1e-4:
        return f'{c["cls"]}: autograd gradient w.r.t. the operator parameter differs from finite differences by {o["dev"]:.3g}'
    return None


def translate(ctx):
    """Regenerate Gen/autograd_gen.v from _AutogradWrapper / LinearOperator.__init_subclass__ and re-check gen_* = Model/Autograd.v."""
    from translate import autograd as tag
    out = vlib.COQ / 'Gen' / 'autograd_gen.v'
    out.parent.mkdir(exist_ok=True)
    ok, why = tag.write(out)
    ctx.extra.setdefault('coverage', {})['translator_available'] = ok
    ctx.obligations += tag.N_OBLIGATIONS
    if not ok:
        ctx.notes.append(f'translator harness/translate/autograd.py failed closed ({why})')
        ctx.problem('proof', 'gen_autograd', None, f'the autograd wiring of LinearOperator.py is outside the translated subset ({why}): the regenerated obligations cannot be stated')
        return
    rc, so, se = vlib.coqc_file(out)
    if rc == 0:
        ctx.discharged += tag.N_OBLIGATIONS
    else:
        ctx.problem('proof', 'gen_autograd', None, 'regenerated obligation gen_*_ok (autograd wiring == Model/Autograd.v) no longer proves: ' + (se or so)[-700:])


def descr(c):
    return C01.descr(c)     # incl. `axis_permuting` for SliceProjectionOp (open finding KF-C20-1)


FAMILIES = [
    Family('input_gradients', gen, impl, coq, PREAMBLE, compare, oracle, descr=descr, shard=30,
           theorem='C05_wrapper_history, C05_adjoint_of_adjoint, C05_matmul_branches'),
    Family('parameter_gradients', gen_param, impl_param, None, '', None, oracle_param, descr=C01.descr, theorem='(implementation-level)'),
]
