"""C17 - signal models match their closed forms; constraints are invertible and bounded."""
import math
import os
import re
import subprocess
from fractions import Fraction

import numpy as np
import torch

import vlib
from vlib import Family, natlist

LEVEL = 'proof'
RULE = ('signal models: for each of the 7 models random dyadic parameters (<= 12 mantissa bits) on the physical domain, parameter '
        'shapes of rank 0-3 (scalars, maps, size-1 and dropped leading dims, time tensors with extra per-voxel dims, per-voxel '
        'sequence parameters for the transient steady state model), every output element and every autograd gradient element is one '
        '`interval` lemma against the Coq model; constraints: every bound pattern (finite/None/+-inf on either side) x beta in '
        '{0.1 .. 10} x sorted inputs, forward and inverse, one lemma per element. Non-trivial = non-scalar parameters / a bounded '
        'pattern; distinct by case hash.')
TRUSTED_BASE = ['translators harness/translate/models.py and constraints.py (ast -> Gallina over R; fail-closed; torch.exp/log/cos/sin/'
                'sqrt/sinc/sigmoid/logit/expm1/logsigmoid read as their defining real functions)',
                'Coq Interval tactic (per-case lemmas are checked by the kernel)',
                'float64 evaluation of the documented formulas in the oracles (numpy), central finite differences']
ASSUMPTIONS = ['torch element-wise functions compute the correctly rounded-ish float64 value of the real function they are named after '
               '(checked case by case at 1e-9 relative by the interval lemmas)',
               'broadcasting semantics of PyTorch as documented (right-aligned, size 1 expands)']

PREAMBLE_SHAPE = 'From Coq Require Import List.\nFrom MrVerif Require Import Model.SignalModels.\nImport ListNotations.'


# ------------------------------------------------------------------------------------------------
def translate(ctx):
    """Regenerate Gen/models_gen.v and Gen/constraints_gen.v from the current source, re-check their obligations."""
    from translate import constraints, models
    gen = vlib.COQ / 'Gen'
    gen.mkdir(exist_ok=True)
    avail = {}
    for name, mod, out in (('models', models, gen / 'models_gen.v'), ('constraints', constraints, gen / 'constraints_gen.v')):
        ok, why = mod.write(out)
        avail[name] = ok
        if not ok:
            ctx.notes.append(f'translator {name} failed closed ({why}); that part of C17 rests on correspondence alone in this run')
            ctx.obligations += 1
            ctx.problem('proof', f'gen_{name}', None, f'the source is outside the translated subset ({why}): the regenerated obligations cannot be stated')
            continue
        ctx.obligations += mod.N_OBLIGATIONS
        rc, so, se = vlib.coqc_file(out)
        if rc == 0:
            ctx.discharged += mod.N_OBLIGATIONS
        else:
            ctx.problem('proof', f'gen_{name}', None,
                        f'regenerated obligation gen_*_ok (code == model) of {out.name} no longer proves: ' + (se or so)[-700:])
    ctx.extra.setdefault('coverage', {})['translator_available'] = avail


# ------------------------------------------------------------------------------------------------
# helpers: dyadic numbers, Coq real literals
def dy(rng, lo, hi, den):
    return rng.randint(math.ceil(lo * den), math.floor(hi * den)) / den


def rlit(x) -> str:
    fr = Fraction(x)
    assert fr.denominator & (fr.denominator - 1) == 0
    s = f'{abs(fr.numerator)}' if fr.denominator == 1 else f'({abs(fr.numerator)} / {fr.denominator})'
    return s if fr >= 0 else f'(- {s})'


def tol_lit(y, rel_pow=30) -> str:
    """2^-rel_pow * 2^ceil(log2(max(1,|y|)))  (2^-30 ~ 0.93e-9)"""
    k = 0 if abs(y) <= 1 else math.ceil(math.log2(abs(y)))
    return f'({2 ** k} / {2 ** rel_pow})'


def fin(x):
    """JSON-safe float"""
    x = float(x)
    if math.isnan(x):
        return 'nan'
    if math.isinf(x):
        return 'inf' if x > 0 else '-inf'
    return x


def unfin(x):
    return float(x) if isinstance(x, str) else x


# ------------------------------------------------------------------------------------------------
# signal models
# name -> (class, coq function, forward parameters, attributes in the order of the Coq function (alphabetical), time-like attrs)
MODELS = {
    'IR': ('InversionRecovery', 'ir', ['m0', 't1'], ['ti'], ['ti']),
    'SR': ('SaturationRecovery', 'sr', ['m0', 't1'], ['ti'], ['ti']),
    'MONO': ('MonoExponentialDecay', 'mono', ['m0', 'decay_constant'], ['decay_time'], ['decay_time']),
    'MOLLI': ('MOLLI', 'molli', ['a', 'c', 't1'], ['ti'], ['ti']),
    'TSS': ('TransientSteadyStateWithPreparation', 'tss', ['m0', 't1', 'flip_angle'],
            ['delay_after_preparation', 'm0_scaling_preparation', 'repetition_time', 'sampling_time'], ['sampling_time']),
    'WASABI': ('WASABI', 'wasabi', ['b0_shift', 'relative_b1', 'c', 'd'], ['b1_nom', 'gamma', 'offsets', 'tp'], ['offsets']),
    'WASABITI': ('WASABITI', 'wasabiti', ['b0_shift', 'rb1', 't1'], ['b1_nom', 'gamma', 'offsets', 'tp', 'trec'], ['offsets', 'trec']),
}
# analytic derivative definitions of Model/SignalModels.v per forward parameter (None: not modelled)
DERIVS = {
    'IR': {'m0': 'ir_d_m0', 't1': 'ir_d_t1'}, 'SR': {'m0': 'sr_d_m0', 't1': 'sr_d_t1'},
    'MONO': {'m0': 'mono_d_m0', 'decay_constant': 'mono_d_tc'},
    'MOLLI': {'a': 'molli_d_a', 'c': 'molli_d_c', 't1': 'molli_d_t1'},
    'TSS': {'m0': 'tss_d_m0', 't1': 'tss_d_t1', 'flip_angle': 'tss_d_fa'},
    'WASABI': {'b0_shift': 'wasabi_d_b0', 'relative_b1': 'wasabi_d_rb1', 'c': 'wasabi_d_c', 'd': 'wasabi_d_d'},
    'WASABITI': {'b0_shift': 'wasabiti_d_b0', 'rb1': 'wasabiti_d_rb1', 't1': 'wasabiti_d_t1'},
}
# value ranges (lo, hi, denominator): dyadic, on the physical domain of each model
RANGES = {
    'IR': {'m0': (-4, 4, 256), 't1': (0.125, 4, 256), 'ti': (0, 6, 128)},
    'SR': {'m0': (-4, 4, 256), 't1': (0.125, 4, 256), 'ti': (0, 6, 128)},
    'MONO': {'m0': (-4, 4, 256), 'decay_constant': (0.125, 4, 256), 'decay_time': (0, 6, 128)},
    'MOLLI': {'a': (-4, 4, 256), 'c': (0.5, 3, 128), 't1': (0.25, 4, 256), 'ti': (0, 4, 128)},
    'TSS': {'m0': (0.25, 4, 256), 't1': (0.25, 4, 256), 'flip_angle': (1 / 64, 1.25, 256), 'sampling_time': (0, 4, 128),
            'repetition_time': (1 / 256, 1 / 16, 1024), 'm0_scaling_preparation': (-1, 1, 64), 'delay_after_preparation': (0, 0.5, 256)},
    'WASABI': {'b0_shift': (-40, 40, 8), 'relative_b1': (0.5, 1.5, 256), 'c': (0.5, 1.5, 256), 'd': (0.5, 2.5, 256),
               'offsets': (-300, 300, 4), 'tp': (3 / 1024, 8 / 1024, 4096), 'b1_nom': (3, 4.5, 64), 'gamma': (40, 45, 16)},
    'WASABITI': {'b0_shift': (-40, 40, 8), 'rb1': (0.5, 1.5, 256), 't1': (0.25, 4, 256), 'offsets': (-300, 300, 4),
                 'trec': (0.25, 4, 128), 'tp': (3 / 1024, 8 / 1024, 4096), 'b1_nom': (3, 4.5, 64), 'gamma': (40, 45, 16)},
}
SEQ_PARAMS = {'TSS': ['repetition_time', 'm0_scaling_preparation', 'delay_after_preparation']}


def rand_array(rng, shape, rg):
    n = int(np.prod(shape)) if shape else 1
    vals = [dy(rng, *rg) for _ in range(n)]
    return np.array(vals, dtype=np.float64).reshape(shape).tolist()


def gen_models(rng, tier):
    cases = []
    per_model = 6 if tier == 'quick' else 200
    grads_per_model = 2 if tier == 'quick' else 40
    for name, (_, _, params, attrs, timelike) in MODELS.items():
        rg = RANGES[name]
        for k in range(per_model + grads_per_model):
            grad = k >= per_model
            kind = 'grad' if grad else rng.choice(['scalar', 'map', 'map', 'broadcast', 'broadcast', 'time_nd', 'lowrank_first'])
            rank = 0 if kind == 'scalar' else rng.randint(1, 3)
            pshape = [rng.randint(1, 3) for _ in range(rank)]
            if name == 'TSS' and not grad and kind in ('map', 'broadcast', 'time_nd'):
                rank = rng.randint(2, 3)
                pshape = rng.sample([1, 2, 3], rank) if rank == 3 else rng.sample([2, 3], 2)
            while int(np.prod(pshape)) > (4 if grad else 8):
                pshape[rng.randrange(rank)] = 1
            T = rng.randint(1, 2 if grad else 3)
            shapes = {}
            for i, p in enumerate(params):
                s = list(pshape)
                if kind in ('broadcast', 'time_nd'):
                    s = [1 if rng.random() < 0.3 else d for d in s]
                    if i > 0 and rng.random() < 0.25:
                        s = s[rng.randint(0, len(s)):]
                shapes[p] = s
            if kind == 'lowrank_first':  # the FIRST parameter has fewer dims than another one (e.g. scalar m0 and a t1 map)
                shapes[params[0]] = pshape[rng.randint(1, rank):]
                if T == pshape[-1]:
                    T += 1
            ts = []
            if kind == 'time_nd' and rank:
                kdim = rng.randint(1, rank)
                ts = [d if rng.random() < 0.7 else 1 for d in pshape[:kdim]]
            c = {'model': name, 'kind': kind, 'grad': grad, 'pshape': pshape, 'tshape': [T, *ts], 'params': {}, 'attrs': {}}
            for p in params:
                c['params'][p] = rand_array(rng, shapes[p], rg[p])
            for a in attrs:
                if a in timelike:
                    c['attrs'][a] = rand_array(rng, [T, *ts], rg[a])
                elif a in SEQ_PARAMS.get(name, []) and rank and not grad and rng.random() < 0.7:
                    j = rng.randint(1, max(1, rank - 1))  # per-voxel sequence parameter: LEADING dims of the parameter maps
                    c['attrs'][a] = rand_array(rng, [d if rng.random() < 0.8 else 1 for d in pshape[:j]], rg[a])
                else:
                    c['attrs'][a] = dy(rng, *rg[a])
            cases.append(c)
    # the library defaults of WASABI / WASABITI (non-dyadic decimal constants, exact as float64)
    for name in ('WASABI', 'WASABITI'):
        rg = RANGES[name]
        c = {'model': name, 'kind': 'defaults', 'grad': False, 'pshape': [2], 'tshape': [3], 'params': {}, 'attrs': {}}
        for p in MODELS[name][2]:
            c['params'][p] = rand_array(rng, [2], rg[p])
        c['attrs'] = {'offsets': rand_array(rng, [3], rg['offsets']), 'tp': 0.005, 'b1_nom': 3.70 if name == 'WASABI' else 3.75,
                      'gamma': 42.5764}
        if name == 'WASABITI':
            c['attrs']['trec'] = rand_array(rng, [3], rg['trec'])
        cases.append(c)
    return cases


def build_model(c):
    import mrpro.operators.models as M
    cls = getattr(M, MODELS[c['model']][0])
    kw = {k: torch.tensor(v, dtype=torch.float64) for k, v in c['attrs'].items()}
    return cls(**kw)


_OBS = {}   # id(case) is not stable across families; keyed by json of the case


def _key(c):
    import json
    return json.dumps(c, sort_keys=True)


def impl_models(c):
    op = build_model(c)
    params = [torch.tensor(c['params'][p], dtype=torch.float64, requires_grad=c['grad']) for p in MODELS[c['model']][2]]
    (y,) = op(*params)
    obs = {'shape': list(y.shape), 'out': [fin(v) for v in y.detach().flatten().tolist()], 'dtype': str(y.dtype)}
    if c['grad']:
        grads = {}
        T = y.shape[0]
        for t in range(T):
            gs = torch.autograd.grad(y[t].sum(), params, retain_graph=True, allow_unused=True)
            for p, q, g in zip(MODELS[c['model']][2], params, gs):
                grads.setdefault(p, []).append([fin(v) for v in (g if g is not None else torch.zeros_like(q)).flatten().tolist()])
        obs['grads'] = grads
        # central finite differences of the implementation itself (oracle for autograd)
        fd = {}
        with torch.no_grad():
            for i, p in enumerate(MODELS[c['model']][2]):
                h = 1e-6
                plus = [q.detach().clone() for q in params]
                minus = [q.detach().clone() for q in params]
                plus[i] = plus[i] + h
                minus[i] = minus[i] - h
                d = (op(*plus)[0] - op(*minus)[0]) / (2 * h)
                fd[p] = [[fin(v) for v in d[t].flatten().tolist()] for t in range(T)]
        obs['fd'] = fd
    _OBS[_key(c)] = obs
    return obs


def expected_shape(c):
    """(T,) + broadcast(parameters, trailing time dims aligned with the leading parameter dims, per-voxel sequence parameters)"""
    name = c['model']
    n = max(np.array(v).ndim for v in c['params'].values())
    shapes = [np.array(v).shape for v in c['params'].values()]
    ts = c['tshape'][1:]
    shapes.append(tuple(ts) + (1,) * (n - len(ts)))
    for a in SEQ_PARAMS.get(name, []):
        s = np.array(c['attrs'][a]).shape
        shapes.append(tuple(s) + (1,) * (n - len(s)))
    return [c['tshape'][0], *np.broadcast_shapes(*shapes)]


def elementwise_args(c):
    """all arguments of the Coq function broadcast to the expected output shape: dict name -> flat list"""
    name = c['model']
    shp = expected_shape(c)
    n = len(shp) - 1
    out = {}
    for p, v in c['params'].items():
        out[p] = np.broadcast_to(np.array(v, dtype=np.float64), shp).flatten().tolist()
    for a, v in c['attrs'].items():
        arr = np.array(v, dtype=np.float64)
        if a in MODELS[name][4]:
            arr = arr.reshape(arr.shape + (1,) * (n - (arr.ndim - 1)))
        elif arr.ndim:
            arr = arr.reshape(arr.shape + (1,) * (n - arr.ndim))
        out[a] = np.broadcast_to(arr, shp).flatten().tolist()
    return shp, out


def doc_formula(name, a):
    """the documented closed forms, float64, written independently of the implementation (a: dict of numpy arrays)"""
    exp, sin, sqrt, log, cos, pi = np.exp, np.sin, np.sqrt, np.log, np.cos, np.pi
    if name == 'IR':
        return a['m0'] * (1 - 2 * exp(-a['ti'] / a['t1']))
    if name == 'SR':
        return a['m0'] * (1 - exp(-a['ti'] / a['t1']))
    if name == 'MONO':
        return a['m0'] * exp(-a['decay_time'] / a['decay_constant'])
    if name == 'MOLLI':  # a - b e^{-t/T1*}, b = a c, T1* = T1/(c-1)
        with np.errstate(divide='ignore', invalid='ignore'):
            t1s = a['t1'] / (a['c'] - 1)
            e = np.where(a['c'] == 1, 1.0, exp(-a['ti'] / t1s))
        return a['a'] - a['a'] * a['c'] * e
    if name == 'TSS':
        t1s = 1 / (1 / a['t1'] - log(cos(a['flip_angle'])) / a['repetition_time'])
        m0s = a['m0'] * t1s / a['t1']
        minit = a['m0'] + (a['m0_scaling_preparation'] * a['m0'] - a['m0']) * exp(-a['delay_after_preparation'] / a['t1'])
        return m0s + (minit - m0s) * exp(-a['sampling_time'] / t1s)
    if name in ('WASABI', 'WASABITI'):
        rb1 = a['relative_b1'] if name == 'WASABI' else a['rb1']
        u = a['gamma'] * a['b1_nom'] * rb1
        v = a['offsets'] - a['b0_shift']
        q = u * u + v * v
        with np.errstate(divide='ignore', invalid='ignore'):
            line = np.where(q == 0, 0.0, u * u / q * sin(pi * a['tp'] * sqrt(q)) ** 2)
        if name == 'WASABI':
            return a['c'] - a['d'] * line
        return (1 - exp(-a['trec'] / a['t1'])) * (1 - 2 * line)
    raise KeyError(name)


def oracle_models(c, o):
    if isinstance(o, dict) and 'raises' in o:
        return f'{c["model"]}: valid broadcastable parameters rejected: {o["raises"]} {o.get("msg", "")[:120]}'
    shp, args = elementwise_args(c)
    if o['shape'] != shp:
        return f'{c["model"]}: output shape {o["shape"]}, expected (time axis first) {shp}'
    if o['dtype'] != 'torch.float64':
        return f'{c["model"]}: float64 inputs give {o["dtype"]}'
    want = doc_formula(c['model'], {k: np.array(v) for k, v in args.items()})
    got = np.array([unfin(v) for v in o['out']], dtype=np.float64)
    if not np.all(np.isfinite(got)):
        return f'{c["model"]}: non-finite output on the physical domain'
    err = np.abs(got - want) / np.maximum(1.0, np.abs(want))
    if err.max() > 1e-9:
        i = int(err.argmax())
        return (f'{c["model"]}: element {i} = {got[i]!r}, documented closed form gives {want[i]!r} at '
                + ', '.join(f'{k}={v[i]}' for k, v in args.items()))
    if c['grad']:
        for p, rows in o['grads'].items():
            g = np.array([[unfin(v) for v in r] for r in rows], dtype=np.float64)
            f = np.array([[unfin(v) for v in r] for r in o['fd'][p]], dtype=np.float64)
            if g.shape != f.shape:
                return f'{c["model"]}: gradient w.r.t. {p} has {g.shape} elements, finite differences {f.shape}'
            e = np.abs(g - f) / np.maximum(1.0, np.abs(f))
            if not np.all(np.isfinite(g)) or e.max() > 1e-5:
                return f'{c["model"]}: autograd gradient w.r.t. {p} {g.flatten().tolist()[:4]} differs from central differences {f.flatten().tolist()[:4]}'
    return None


def descr_models(c):
    r0 = np.array(c['params'][MODELS[c['model']][2][0]]).ndim
    return {'model': c['model'], 'kind': c['kind'], 'grad': c['grad'],
            'first_param_lower_rank': r0 < max(np.array(v).ndim for v in c['params'].values())}


# ------------------------------------------------------------------------------------------------
# output shape against the Coq model of the implementation's shape computation (vm_compute)
def gen_shape(rng, tier):
    cases = []
    for _ in range(50 if tier == 'quick' else 2000):
        name = rng.choice(list(MODELS) + ['TSS', 'TSS', 'TSS'])
        rank = rng.randint(0, 4)
        pshape = [rng.randint(1, 3) for _ in range(rank)]
        p0 = [d if rng.random() < 0.8 else 1 for d in pshape]
        if rank and rng.random() < 0.15:
            p0 = p0[rng.randint(1, rank):]      # first parameter of lower rank than the others
        T = rng.randint(1, 4)
        k = rng.randint(0, rank)
        mode = rng.random()
        if mode < 0.7:
            ts = [d if rng.random() < 0.6 else 1 for d in pshape[:k]]
        elif mode < 0.85:
            ts = [rng.randint(1, 3) for _ in range(k)]            # possibly incompatible trailing dims
        else:
            ts = [rng.randint(1, 3) for _ in range(rank + rng.randint(1, 2))]  # more time dims than parameter dims
        seq, seq_attr = None, None
        if name == 'TSS' and rank and rng.random() < 0.75:
            j = rng.randint(0, rank)
            seq = [d if rng.random() < 0.7 else 1 for d in pshape[:j]]
            seq_attr = rng.choice(SEQ_PARAMS['TSS'])
        cases.append({'model': name, 'p0shape': p0, 'pshape': pshape, 'tshape': [T, *ts], 'seq': seq, 'seq_attr': seq_attr})
    return cases


def impl_shape(c):
    name = c['model']
    _, _, params, attrs, timelike = MODELS[name]
    kw = {}
    for a in attrs:
        if a in timelike:
            kw[a] = torch.ones(c['tshape'], dtype=torch.float64)
        elif c['seq'] is not None and a == c.get('seq_attr', 'repetition_time'):
            kw[a] = torch.ones(c['seq'], dtype=torch.float64)
        else:
            kw[a] = torch.tensor(1.0, dtype=torch.float64)
    import mrpro.operators.models as M
    op = getattr(M, MODELS[name][0])(**kw)
    ps = [torch.full(c['p0shape'] if i == 0 else c['pshape'], 0.5, dtype=torch.float64) for i in range(len(params))]
    (y,) = op(*ps)
    return list(y.shape)


def coq_shape(c):
    pbc = list(np.broadcast_shapes(tuple(c['p0shape']), tuple(c['pshape'])))
    seqs = []
    if c['model'] == 'TSS':   # repetition_time, m0_scaling_preparation, delay_after_preparation (0-dim unless given per voxel)
        seqs = [c['seq'] if c['seq'] is not None else [], [], []]
    return (f'model_shape_impl {natlist(c["tshape"])} {natlist(c["p0shape"])} {natlist(pbc)} '
            f'[{"; ".join(natlist(s) for s in seqs)}]')


def cmp_shape(c, o, m):
    tag, args = m
    if tag == 'ShapeOk':
        if isinstance(o, dict):
            return f'model gives {args[0]}, implementation raises {o.get("raises")} {o.get("msg", "")[:80]}'
        return None if args[0] == o else f'model {args[0]} impl {o}'
    want = {'BroadcastError': 'RuntimeError'}[tag]
    if isinstance(o, dict) and o.get('raises') == want:
        return None
    return f'model predicts {want}, implementation gives {o}'


def oracle_shape(c, o):
    ts, ps = c['tshape'][1:], list(np.broadcast_shapes(tuple(c['p0shape']), tuple(c['pshape'])))
    if len(ts) > len(ps):
        return None  # outside the documented use (time tensor with more trailing dims than the parameters)
    try:
        shapes = [tuple(ps), tuple(ts) + (1,) * (len(ps) - len(ts))]
        if c['seq'] is not None:
            shapes.append(tuple(c['seq']) + (1,) * (len(ps) - len(c['seq'])))
        want = [c['tshape'][0], *np.broadcast_shapes(*shapes)]
    except ValueError:
        if len(c['p0shape']) < len(ps):
            return None   # with the rank of the first parameter the misaligned shapes may happen to broadcast
        return None if isinstance(o, dict) else f'incompatible shapes accepted: {o}'
    if isinstance(o, dict):
        return f'{c["model"]}: compatible shapes time {c["tshape"]} parameters {c["p0shape"]}, {c["pshape"]} rejected: {o}'
    return None if o == want else f'{c["model"]}: output shape {o}, expected {want} (time axis first)'


def descr_shape(c):
    return {'model': c['model'], 'first_param_lower_rank': len(c['p0shape']) < len(c['pshape'])}


# ------------------------------------------------------------------------------------------------
# constraints
BETAS = [0.125, 0.25, 0.5, 1.0, 2.0, 3.0, 5.0, 10.0]
KINDS = ['ab', 'ab', 'ab', 'lo', 'lo', 'hi', 'hi', 'none', 'lo_inf', 'hi_inf', 'neginf_none', 'neginf_posinf', 'none_posinf']


def bounds_of(kind, rng):
    a = dy(rng, -4, 4, 64)
    b = a + dy(rng, 0.25, 6, 64)
    return {'ab': [a, b], 'lo': [a, None], 'hi': [None, b], 'none': [None, None], 'lo_inf': [a, 'inf'], 'hi_inf': ['-inf', b],
            'neginf_none': ['-inf', None], 'neginf_posinf': ['-inf', 'inf'], 'none_posinf': [None, 'inf']}[kind]


def gen_constraints(rng, tier):
    cases = []
    n = 30 if tier == 'quick' else 1200
    for i in range(n):
        kind = KINDS[i % len(KINDS)] if i < 2 * len(KINDS) else rng.choice(KINDS)
        # the default steepness 1.0 hides errors that cancel at beta = 1: use beta = 1 rarely
        bs, bp = rng.choice(BETAS), rng.choice(BETAS)
        if i < len(BETAS):
            bs = bp = BETAS[i]
        bd = bounds_of(kind, rng)
        beta = bs if kind == 'ab' else bp
        m = 5
        span = 12.0 / beta  # keep |beta x| <= 12: no float saturation
        xs = sorted({dy(rng, -span, span, 32) for _ in range(m)})
        ys = []
        lo, hi = (bd[0] if isinstance(bd[0], float) else None), (bd[1] if isinstance(bd[1], float) else None)
        for _ in range(4):
            if lo is not None and hi is not None:
                u = dy(rng, 1 / 32, 31 / 32, 256)
                ys.append(lo + (hi - lo) * u)
            elif lo is not None:
                ys.append(lo + dy(rng, 1 / 64, 8, 64) / max(1.0, beta / 2))
            elif hi is not None:
                ys.append(hi - dy(rng, 1 / 64, 8, 64) / max(1.0, beta / 2))
            else:
                ys.append(dy(rng, -8, 8, 32))
        extra = [dy(rng, -8, 8, 32) for _ in range(len(xs))] if rng.random() < 0.5 else None
        cases.append({'kind': kind, 'bounds': bd, 'bs': bs, 'bp': bp, 'xs': xs, 'ys': ys, 'extra': extra})
    return cases


def pybound(b):
    return float(b) if isinstance(b, str) else b


def impl_constraints(c):
    from mrpro.operators import ConstraintsOp
    op = ConstraintsOp(bounds=[tuple(pybound(b) for b in c['bounds'])], beta_sigmoid=c['bs'], beta_softplus=c['bp'])
    x = torch.tensor(c['xs'], dtype=torch.float64)
    ins = (x,) if c['extra'] is None else (x, torch.tensor(c['extra'], dtype=torch.float64))
    fw = op(*ins)
    back = op.inverse(*fw)
    y = torch.tensor(c['ys'], dtype=torch.float64)
    iy = op.inverse(y)
    fiy = op(*iy)
    obs = {'n_out': len(fw), 'fwd': [fin(v) for v in fw[0].tolist()], 'back': [fin(v) for v in back[0].tolist()],
           'inv': [fin(v) for v in iy[0].tolist()], 'fwd_inv': [fin(v) for v in fiy[0].tolist()],
           'extra_fwd': None if c['extra'] is None else [fin(v) for v in fw[1].tolist()],
           'extra_back': None if c['extra'] is None else [fin(v) for v in back[1].tolist()]}
    _OBS[_key(c)] = obs
    return obs


def oracle_constraints(c, o):
    if isinstance(o, dict) and 'raises' in o:
        return f'valid bounds {c["bounds"]} rejected: {o}'
    lo = c['bounds'][0] if isinstance(c['bounds'][0], float) else -math.inf   # None and -inf: not constrained from below
    hi = c['bounds'][1] if isinstance(c['bounds'][1], float) else math.inf
    tag = f'bounds {c["bounds"]} beta_sigmoid {c["bs"]} beta_softplus {c["bp"]}'
    if o['n_out'] != (1 if c['extra'] is None else 2):
        return f'{tag}: {o["n_out"]} outputs for {1 if c["extra"] is None else 2} inputs'
    fw = [unfin(v) for v in o['fwd']]
    for x, y in zip(c['xs'], fw):
        if not (math.isfinite(y) and lo < y < hi):
            return f'{tag}: forward({x}) = {y} is not strictly inside ({lo}, {hi})'
    for (x0, y0), (x1, y1) in zip(zip(c['xs'], fw), zip(c['xs'][1:], fw[1:])):
        if not y0 < y1:
            return f'{tag}: not strictly increasing: forward({x0}) = {y0} >= forward({x1}) = {y1}'
    if lo == -math.inf and hi == math.inf and fw != c['xs']:
        return f'{tag}: unconstrained input changed: {fw[:3]}'
    for x, b in zip(c['xs'], o['back']):
        b = unfin(b)
        if not abs(b - x) <= 1e-7 * max(1.0, abs(x)):
            return f'{tag}: inverse(forward({x})) = {b}'
    for y, iy, fy in zip(c['ys'], o['inv'], o['fwd_inv']):
        iy, fy = unfin(iy), unfin(fy)
        if not math.isfinite(iy):
            return f'{tag}: inverse({y}) = {iy} for y inside the bounds'
        if not abs(fy - y) <= 1e-7 * max(1.0, abs(y)):
            return f'{tag}: forward(inverse({y})) = {fy}'
    if c['extra'] is not None and (o['extra_fwd'] != c['extra'] or o['extra_back'] != c['extra']):
        return f'{tag}: the input without bounds is not passed through unchanged'
    return None


def descr_constraints(c):
    return {'bound_kind': c['kind'], 'bs': c['bs'], 'bp': c['bp']}


FAMILIES = [
    Family('model_shape', gen_shape, impl_shape, coq_shape, PREAMBLE_SHAPE, cmp_shape, oracle_shape,
           nontrivial=lambda c: len(c['pshape']) > 0, descr=descr_shape,
           theorem='C17_shape_impl_partial, C17_shape_impl_seqparam_partial, C17_shape, C17_shape_first_param_rank_refuted'),
    Family('models', gen_models, impl_models, None, '', None, oracle_models, nontrivial=lambda c: len(c['pshape']) > 0,
           descr=descr_models, theorem='C17_model_eq_doc_*, C17_derivatives_* (interval lemmas in extra_checks)'),
    Family('constraints', gen_constraints, impl_constraints, None, '', None, oracle_constraints,
           nontrivial=lambda c: c['kind'] != 'none', descr=descr_constraints,
           theorem='C17_sigmoid, C17_softplus_lower, C17_softplus_upper, C17_branch_selection (interval lemmas in extra_checks)'),
]


# ------------------------------------------------------------------------------------------------
# per-case real-valued lemmas closed by `interval`
IV_PREAMBLE = '''From Coq Require Import Reals.
From Interval Require Import Tactic.
From MrVerif Require Import Model.SignalModels Model.Constraints Proofs.SignalModelsProofs.
Open Scope R_scope.
Ltac unf := cbv beta zeta delta [ir_code ir_d_m0 ir_d_t1 sr_code sr_d_m0 sr_d_t1 mono_code mono_d_m0 mono_d_tc molli_code molli_d_a
  molli_d_c molli_d_t1 tss_code tss_d_m0 tss_d_t1 tss_d_fa wasabi_code wasabi_d_c wasabi_d_d wasabi_d_b0 wasabi_d_rb1 wasabiti_code
  wasabiti_d_t1 wasabiti_d_b0 wasabiti_d_rb1].
Ltac nosinc := unf; try (rewrite sinc_nz by (interval with (i_prec 60))).
Ltac cfw := eexists; split; [reflexivity|]; unfold fwd_ab, fwd_lo, fwd_hi, inv_ab, inv_lo, inv_hi, sigmoid, sigmoid_inverse, softplus, softplus_inverse.
'''
IV = 'interval with (i_prec 80)'


def xb(b):
    if b is None:
        return 'XNone'
    if b == 'inf':
        return 'XPosInf'
    if b == '-inf':
        return 'XNegInf'
    return f'(XFin {rlit(b)})'


def model_goals(c, o):
    """list of (label, goal text)"""
    name = c['model']
    _, fn, params, attrs, _ = MODELS[name]
    goals = []
    if isinstance(o, dict) and 'raises' in o:
        return goals
    shp, args = elementwise_args(c)
    if o['shape'] != shp:
        return goals  # reported by the oracle
    order = params + attrs
    n = len(o['out'])
    sinc = name in ('WASABI', 'WASABITI')

    def app(f, i):
        return f'{f} ' + ' '.join(rlit(args[k][i]) for k in order)

    def singular(i):
        if not sinc:
            return False
        rb1 = args['relative_b1' if name == 'WASABI' else 'rb1'][i]
        return rb1 * args['b1_nom'][i] * args['gamma'][i] == 0 and args['offsets'][i] == args['b0_shift'][i]

    for i in range(n):
        y = unfin(o['out'][i])
        if not math.isfinite(y) or singular(i):
            continue
        goals.append((f'value[{i}]', f'Goal Rabs ({app(fn + "_code", i)} - {rlit(y)}) <= {tol_lit(y)}.\n'
                      f'Proof. nosinc. {IV}. Qed.'))
    if c['grad']:
        per = n // shp[0]
        for p, d in DERIVS[name].items():
            rows = o['grads'][p]
            for t in range(shp[0]):
                for j in range(per):
                    i = t * per + j
                    g = unfin(rows[t][j])
                    if not math.isfinite(g) or singular(i):
                        continue
                    goals.append((f'd/d{p}[{i}]', f'Goal Rabs ({app(d, i)} - {rlit(g)}) <= {tol_lit(g, 27)}.\n'
                                  f'Proof. nosinc. {IV}. Qed.'))
    return goals


def constraint_goals(c, o):
    goals = []
    if isinstance(o, dict) and 'raises' in o:
        return goals
    lb, ub = xb(c['bounds'][0]), xb(c['bounds'][1])
    bs, bp = rlit(c['bs']), rlit(c['bp'])
    for fn, xs, ys, lab in (('constraint_fwd', c['xs'], o['fwd'], 'forward'), ('constraint_inv', c['ys'], o['inv'], 'inverse')):
        for i, (x, y) in enumerate(zip(xs, ys)):
            y = unfin(y)
            call = f'{fn} {lb} {ub} {bs} {bp} {rlit(x)}'
            if math.isfinite(y):
                goals.append((f'{lab}[{i}]', f'Goal exists v, {call} = Ok v /\\ Rabs (v - {rlit(y)}) <= {tol_lit(y, 27 if lab == "inverse" else 30)}.\n'
                              f'Proof. cfw. {IV}. Qed.'))
            else:
                goals.append((f'{lab}[{i}]', f'Goal {call} = NonReal.\nProof. reflexivity. Qed.'))
    return goals


def run_interval_files(work, items, shard, maxpar):
    """items: list of (meta, goal_text).  Returns list of failed metas (with message) and the number closed."""
    failed, closed = [], 0
    queue = []
    for k in range(0, len(items), shard):
        queue.append((f'iv_{k // shard}', items[k:k + shard], 0))
    running = []

    def start(tag, its, attempt):
        p = work / f'{tag}_{attempt}.v'
        lines = IV_PREAMBLE.count('\n') + 2   # the preamble ends with a newline and is joined with one more
        text = [IV_PREAMBLE]
        spans = []
        for meta, g in its:
            n = g.count('\n') + 1
            spans.append((lines, lines + n - 1))
            text.append(g)
            lines += n
        p.write_text('\n'.join(text) + '\n')
        pr = subprocess.Popen(['timeout', str(vlib.COQC_TIMEOUT), 'coqc', '-Q', str(vlib.COQ), 'MrVerif', '-w',
                               '-notation-overridden,-deprecated-hint-without-locality,-ambiguous-paths', p.name],
                              cwd=work, stdout=subprocess.PIPE, stderr=subprocess.PIPE, text=True)
        running.append((pr, tag, its, attempt, spans))

    while queue or running:
        while queue and len(running) < maxpar:
            start(*queue.pop(0))
        pr, tag, its, attempt, spans = running.pop(0)
        out, err = pr.communicate()
        if pr.returncode == 0:
            closed += len(its)
            continue
        m = re.search(r'line (\d+), characters', err or out)
        bad = None
        if m:
            ln = int(m.group(1))
            bad = next((i for i, (a, b) in enumerate(spans) if a <= ln <= b), None)
        if bad is None or attempt >= 6:
            for meta, _ in its:
                failed.append((meta, f'coqc failed without an attributable goal: {(err or out)[-300:]}'))
            continue
        closed += bad
        failed.append((its[bad][0], 'the per-case lemma does not hold: ' + ' '.join((err or out).split())[-260:]))
        rest = its[bad + 1:]
        if rest:
            queue.insert(0, (tag, rest, attempt + 1))
    return failed, closed


def extra_checks(ctx):
    """Correspondence of the real-valued models: one `interval` lemma per output / gradient element of every case."""
    items = []
    fams = {f.name: f for f in FAMILIES}
    import json
    for key, o in _OBS.items():
        c = json.loads(key)
        if 'model' in c:
            gs, fam = model_goals(c, o), 'models'
        else:
            gs, fam = constraint_goals(c, o), 'constraints'
        for lab, g in gs:
            items.append(((fam, c, lab), g))
    n = len(items)
    if n == 0:
        ctx.notes.append('no interval lemmas were generated')
        return
    maxpar = max(2, min(12, (os.cpu_count() or 4) - 2))
    shard = max(20, min(220, -(-n // maxpar)))
    failed, closed = run_interval_files(ctx.work, items, shard, maxpar)
    ctx.obligations += n
    ctx.discharged += closed
    ctx.traces_validated += closed
    ctx.count('interval_lemmas', n)
    ctx.extra.setdefault('coverage', {})['interval_lemmas'] = {'generated': n, 'closed': closed, 'failed': len(failed)}
    seen = set()
    for (fam, c, lab), msg in failed:
        k = (fam, json.dumps(c, sort_keys=True))
        if k in seen:
            continue
        seen.add(k)
        d = fams[fam].descr(c) if fams[fam].descr else c
        ctx.problem('correspondence', fam, c, f'Coq model vs implementation, {lab}: {msg}', d)


# ---- added after seeded change C17-3: gradients w.r.t. the sequence parameters given to the constructor ----------------
_SEQ_MODELS = {
    'InversionRecovery': (['ti'], 2), 'SaturationRecovery': (['ti'], 2), 'MonoExponentialDecay': (['decay_time'], 2), 'MOLLI': (['ti'], 3),
    'TransientSteadyStateWithPreparation': (['sampling_time', 'repetition_time', 'm0_scaling_preparation', 'delay_after_preparation'], 3),
    'WASABI': (['offsets', 'tp', 'b1_nom', 'gamma', 'freq'], 4), 'WASABITI': (['offsets', 'trec', 'tp', 'b1_nom', 'gamma', 'freq'], 3),
}


def _gen_seqparam_grad(rng, tier):
    out = []
    names = list(_SEQ_MODELS)
    for i in range(21 if tier == 'quick' else 280):
        m = names[i % len(names)]
        params, _ = _SEQ_MODELS[m]
        out.append({'model': m, 'wrt': params[(i // len(names)) % len(params)], 'seed': rng.randrange(10 ** 6)})
    return out


def _seq_values(model, g):
    import torch
    t = 4
    u = lambda lo, hi, n=t: torch.rand(n, generator=g, dtype=torch.float64) * (hi - lo) + lo  # noqa: E731
    if model in ('InversionRecovery', 'SaturationRecovery', 'MOLLI'):
        return {'ti': u(0.1, 2.0)}
    if model == 'MonoExponentialDecay':
        return {'decay_time': u(0.01, 0.2)}
    if model == 'TransientSteadyStateWithPreparation':
        return {'sampling_time': u(0.05, 1.0), 'repetition_time': u(0.004, 0.008, 1)[0], 'm0_scaling_preparation': u(-1.0, -0.5, 1)[0],
                'delay_after_preparation': u(0.01, 0.05, 1)[0]}
    vals = {'offsets': u(-300.0, 300.0), 'tp': u(0.004, 0.006, 1)[0], 'b1_nom': u(3.0, 4.0, 1)[0], 'gamma': u(42.0, 43.0, 1)[0], 'freq': u(120.0, 130.0, 1)[0]}
    if model == 'WASABITI':
        vals = {'offsets': vals['offsets'], 'trec': u(0.5, 3.0), **{k: v for k, v in vals.items() if k != 'offsets'}}
    return vals


def _impl_seqparam_grad(c):
    import torch
    import mrpro.operators.models as M
    g = torch.Generator().manual_seed(c['seed'])
    vals = _seq_values(c['model'], g)
    n_in = _SEQ_MODELS[c['model']][1]
    inputs = [torch.rand(3, generator=g, dtype=torch.float64) * 0.8 + 0.6 for _ in range(n_in)]   # maps of 3 voxels in (0.6, 1.4)
    if c['model'] in ('WASABI', 'WASABITI'):
        inputs[0] = inputs[0] * 10 - 10   # b0 shift in Hz
    w = torch.rand(4, 3, generator=g, dtype=torch.float64)

    def build(v):
        return getattr(M, c['model'])(**v)

    def loss(v):
        (s,) = build(v)(*inputs)
        s = s.real if s.is_complex() else s
        return (w * s).sum()
    v = {k: (x.clone().requires_grad_(True) if k == c['wrt'] else x.clone()) for k, x in vals.items()}
    op = build(v)
    p = getattr(op, c['wrt'])
    if not p.requires_grad:
        return {'no_grad': True}
    (s,) = op(*inputs)
    s = s.real if s.is_complex() else s
    try:
        (gp,) = torch.autograd.grad((w * s).sum(), p)
    except RuntimeError as e:
        return {'grad_error': str(e)[:120]}
    flat = vals[c['wrt']].reshape(-1)
    worst = 0.0
    for k in range(flat.numel()):
        eps = 1e-6 * max(1.0, abs(float(flat[k])))
        vp = {kk: x.clone() for kk, x in vals.items()}
        vm = {kk: x.clone() for kk, x in vals.items()}
        vp[c['wrt']].reshape(-1)[k] += eps
        vm[c['wrt']].reshape(-1)[k] -= eps
        fd = (loss(vp) - loss(vm)).item() / (2 * eps)
        an = gp.reshape(-1)[k].item()
        worst = max(worst, abs(fd - an) / max(1e-6, abs(fd), abs(an)))
    return {'dev': worst}


def _oracle_seqparam_grad(c, o):
    if isinstance(o, dict) and 'raises' in o:
        return f'{c["model"]}: gradient w.r.t. {c["wrt"]} raised {o}'
    if o.get('no_grad'):
        return f'{c["model"]}: the sequence parameter {c["wrt"]} was given with requires_grad=True but the model does not track its gradient'
    if 'grad_error' in o:
        return f'{c["model"]}: no autograd gradient w.r.t. {c["wrt"]}: {o["grad_error"]}'
    if o['dev'] > 1e-4:
        return f'{c["model"]}: autograd gradient w.r.t. the sequence parameter {c["wrt"]} differs from central finite differences (relative {o["dev"]:.3g})'
    return None


FAMILIES.append(vlib.Family('sequence_parameter_gradients', _gen_seqparam_grad, _impl_seqparam_grad, None, '', None, _oracle_seqparam_grad,
                            descr=lambda c: {'model': c['model'], 'wrt': c['wrt']}, theorem='C17_derivatives_* (implementation-level for sequence parameters)'))
