"""C02 - linear operators are linear: superposition holds, zero maps to zero, action = matrix action."""
import numpy as np
import torch

import opzoo
import vlib
from vlib import Family, glist, natlit
from props import C01

LEVEL = 'proof'
RULE = ('operator configurations of harness/opzoo.py (all classes) and random expression trees; per case Gaussian-integer tensors x, y and '
        'Gaussian-integer scalars a, b (complex on purpose, also for operators that treat real and imaginary part separately); forward and '
        'adjoint. Non-trivial = a, b both non-zero and not real; distinct by case hash.')
TRUSTED_BASE = C01.TRUSTED_BASE
ASSUMPTIONS = ['float64 arithmetic on small integers is exact for the index-moving operators; FFT/wavelet/interpolation compared at 1e-9 relative']
PREAMBLE = opzoo.PREAMBLE
TOL = dict(C01.TOL)
ALL = list(opzoo.GENERATORS)


def gen(rng, tier):
    out = []
    n = 60 if tier == 'quick' else 1500
    for i in range(n):
        c = opzoo.GENERATORS[ALL[i % len(ALL)]](rng)
        if c['cls'] in ('GridSamplingOp', 'SliceProjectionOp', 'WaveletOp'):
            c['complex'] = True  # complex scalars on operators that split real and imaginary parts
        if c['cls'] == 'SliceProjectionOp':
            c['vol_batch'] = [[2], [3], [], [2]][(i // len(ALL)) % 4]   # batched complex volumes are always exercised
        if c['cls'] == 'GridSamplingOp' and (i // len(ALL)) % 2 == 0:
            # two batch dimensions of the grid, the second of size 2 (a misplaced real/imag helper axis would be read as that batch axis)
            c['B'], c['B2'] = 3, 2
            c['grid'] = [rng.randint(-10, 10) / 8 for _ in range(6 * opzoo.prod(c['out']) * c['dim'])]
        c['a'], c['b'] = opzoo.rand_gauss(rng, 1, -3, 3)[0], opzoo.rand_gauss(rng, 1, -3, 3)[0]
        if c['a'][1] == 0:
            c['a'][1] = 1   # complex scalars
        if c['b'][1] == 0:
            c['b'][1] = -1
        c['seed'] = rng.randrange(10 ** 6)
        out.append(c)
    # derived operators: sums whose first summand hands its input through (IdentityOp() + A + B, its .H, scaled, composed) - "every linear
    # operator", and the input tensors are used again after the call (added after round-5 seeded change C02-e2)
    import random as _random
    from props import C01
    for k, t in enumerate(C01.gen_tree(_random.Random(0), 'quick')[:10]):
        t.update({'a': [2, 1], 'b': [-1, 3], 'seed': 1000 + k, 'complex': True})
        out.append(t)
    return out


def _rand(shape, g, dtype):
    re = torch.randint(-4, 5, shape, generator=g).to(torch.float64)
    im = torch.randint(-4, 5, shape, generator=g).to(torch.float64)
    return (re + 1j * im).to(dtype) if dtype.is_complex else re.to(dtype)


def impl(c):
    op, in_shape = opzoo.build(c)
    dt = opzoo.dtype_of(c)
    g = torch.Generator().manual_seed(c['seed'])
    a, b = complex(*c['a']), complex(*c['b'])
    if not dt.is_complex:
        a, b = a.real, b.real
    res = {}
    x, y = _rand(in_shape, g, dt), _rand(in_shape, g, dt)
    (fx,), (fy,), (fxy,), (f0,) = op(x), op(y), op(a * x + b * y), op(torch.zeros_like(x))
    u, v = _rand(list(fx.shape), g, dt), _rand(list(fx.shape), g, dt)
    (gu,), (gv,), (guv,), (g0,) = op.adjoint(u), op.adjoint(v), op.adjoint(a * u + b * v), op.adjoint(torch.zeros_like(u))
    scale = float(max(1.0, fxy.abs().max(), guv.abs().max()))
    res['fwd_dev'] = float((fxy - (a * fx + b * fy)).abs().max()) / scale
    res['adj_dev'] = float((guv - (a * gu + b * gv)).abs().max()) / scale
    res['zero'] = float(max(f0.abs().max() if f0.numel() else 0, g0.abs().max() if g0.numel() else 0))
    res['finite'] = bool(torch.isfinite(torch.view_as_real(fxy) if fxy.is_complex() else fxy).all())
    # action of the matrix obtained from basis vectors
    F, G, _ = opzoo.dense(op, in_shape, dt)
    res['matrix_dev'] = float(np.abs(F @ x.reshape(-1).to(torch.complex128).numpy() - fx.reshape(-1).to(torch.complex128).numpy()).max()) / scale
    res['matrix_adj_dev'] = float(np.abs(G @ u.reshape(-1).to(torch.complex128).numpy() - gu.reshape(-1).to(torch.complex128).numpy()).max()) / scale
    # the same real-valued input given in a real dtype must give the action of the same matrix (no dtype-dependent branch)
    if dt.is_complex and c['cls'] not in ('FastFourierOp', 'FourierOp'):
        rdt = torch.float64 if dt == torch.complex128 else torch.float32
        xr = torch.randint(-4, 5, list(in_shape), generator=g).to(rdt)
        try:
            (fr,) = op(xr)
            ref = F @ xr.reshape(-1).to(torch.complex128).numpy()
            res['real_dtype_dev'] = float(np.abs(fr.reshape(-1).to(torch.complex128).numpy() - ref).max()) / float(max(1.0, np.abs(ref).max()))
            ur = torch.randint(-4, 5, list(fx.shape), generator=g).to(rdt)
            (gr,) = op.adjoint(ur)
            refa = G @ ur.reshape(-1).to(torch.complex128).numpy()
            res['real_dtype_adj_dev'] = float(np.abs(gr.reshape(-1).to(torch.complex128).numpy() - refa).max()) / float(max(1.0, np.abs(refa).max()))
        except (RuntimeError, TypeError) as e:
            res['real_dtype_unsupported'] = str(e)[:80]
    if c['cls'] in opzoo.MODELLED:
        xc = x.reshape(-1).to(torch.complex128)
        res['x'] = [[int(v.real), int(v.imag)] for v in xc.tolist()]
        res['fx'] = [[v.real, v.imag] for v in fx.reshape(-1).to(torch.complex128).tolist()]
    return res


def oracle(c, o):
    if 'raises' in o:
        return f'{c["cls"]} raised {o["raises"]}: {o.get("msg")}'
    tol = TOL.get(c['cls'], 0.0) or 1e-12
    for k, what in (('fwd_dev', 'A(a x + b y) != a A(x) + b A(y)'), ('adj_dev', 'A^H(a u + b v) != a A^H(u) + b A^H(v)'),
                    ('matrix_dev', 'A(x) != matrix(A) x'), ('matrix_adj_dev', 'A^H(u) != matrix(A^H) u'),
                    ('real_dtype_dev', 'A(x) for a real-dtype x != matrix(A) x'), ('real_dtype_adj_dev', 'A^H(u) for a real-dtype u != matrix(A^H) u')):
        if k in o and o[k] > tol:
            return f'{c["cls"]}: {what} (relative deviation {o[k]:.3g}, a={c["a"]}, b={c["b"]}, seed {c["seed"]})'
    if o['zero'] != 0.0:
        return f'{c["cls"]}: zero tensor mapped to {o["zero"]}'
    if not o['finite']:
        return f'{c["cls"]}: non-finite output'
    return None


def coq(c):
    if c['cls'] not in opzoo.MODELLED:
        return '0%Z'
    expr, _ = opzoo.coq_linop(c)
    return f'apply_fwd ({expr}) (nil : list G)' if False else f'dense_fwd ({expr})'


def compare(c, o, m):
    """the model is linear by theorem (C02_elementary/C02_closure): impl(x) must equal model_matrix . x exactly"""
    if c['cls'] not in opzoo.MODELLED or 'raises' in o:
        return None
    _, scale = opzoo.coq_linop(c)
    cols = np.array(m, dtype=np.float64)
    if cols.size == 0:
        return None
    M = (cols[..., 0] + 1j * cols[..., 1]).T
    x = np.array([complex(*v) for v in o['x']])
    fx = np.array([complex(*v) for v in o['fx']]) * scale
    if not np.array_equal(M @ x, fx):
        return f'impl(x) differs from the (provably linear) model applied to x: max dev {np.abs(M @ x - fx).max()}'
    return None


# ---- derived operators: complex scalar / tensor factors on operators with real coefficients, applied to real-dtype and complex inputs -------
def gen_scaled(rng, tier):
    out = []
    for i in range(16 if tier == 'quick' else 300):
        cls = ['FiniteDifferenceOp', 'ZeroPadOp', 'RearrangeOp', 'DensityCompensationOp', 'CartesianSamplingOp', 'SensitivityOp', 'EinsumOp'][i % 7]
        c = opzoo.GENERATORS[cls](rng)
        c['complex'] = False if 'complex' in c else c.get('complex')
        c.update({'factor': [rng.choice([-2, 1, 2, 3]), rng.choice([-3, -1, 1, 2])], 'side': ['left', 'right'][i % 2], 'tensor_factor': i % 4 >= 2,
                  'seed': rng.randrange(10 ** 6)})
        out.append(c)
    return out


def impl_scaled(c):
    import mrpro.operators as ops
    op, in_shape = opzoo.build(c)
    g = torch.Generator().manual_seed(c['seed'])
    s = complex(*c['factor'])
    res = {}
    for name, dt in (('real', torch.float64), ('complex', torch.complex128)):
        x = _rand(in_shape, g, dt)
        try:
            (y0,) = op(x)
            u = _rand(list(y0.shape), g, dt)
            op.adjoint(u)
        except (RuntimeError, TypeError, ValueError) as e:   # the inner operator itself rejects that dtype (in forward or in adjoint)
            res[name] = {'unsupported': str(e)[:60]}
            continue
        try:    # an operator with real coefficients may reject complex tensors altogether (torch.einsum with mixed dtypes, depending
            # on the contraction path): then s x / conj(s) u is outside its domain and there is nothing to compare
            op(s * x.to(torch.complex128)), op.adjoint(np.conj(s) * _rand(list(y0.shape), torch.Generator().manual_seed(1), dt).to(torch.complex128))
        except (RuntimeError, TypeError, ValueError) as e:
            res[name] = {'unsupported': 'complex tensors rejected: ' + str(e)[:60]}
            continue
        if c['side'] == 'left':       # (s * A)(x) = s * A(x)
            f = torch.tensor(s, dtype=torch.complex128) if c['tensor_factor'] else s
            sop = f * op
            want = s * y0.to(torch.complex128)
            (got,) = sop(x)
            (ga,) = sop.adjoint(u)
            wanta = op.adjoint((np.conj(s) * u.to(torch.complex128)))[0] if True else None
        else:                          # (A * s)(x) = A(s * x)
            f = torch.tensor(s, dtype=torch.complex128) if c['tensor_factor'] else s
            sop = op * f
            want = op(s * x.to(torch.complex128))[0]
            (got,) = sop(x)
            (ga,) = sop.adjoint(u)
            wanta = np.conj(s) * op.adjoint(u)[0].to(torch.complex128)
        sc = float(max(1.0, want.abs().max()))
        res[name] = {'dev': float((got.to(torch.complex128) - want.to(torch.complex128)).abs().max()) / sc,
                     'adj_dev': float((ga.to(torch.complex128) - wanta.to(torch.complex128)).abs().max()) / float(max(1.0, wanta.abs().max()))}
    return res


def oracle_scaled(c, o):
    if 'raises' in o:
        return f'{c["cls"]} with a complex factor raised {o["raises"]}: {o.get("msg")}'
    for name in ('real', 'complex'):
        r = o.get(name, {})
        if r.get('dev', 0) > 1e-12:
            return (f'({"s * A" if c["side"] == "left" else "A * s"})(x) != {"s * A(x)" if c["side"] == "left" else "A(s * x)"} for s = {c["factor"]} '
                    f'({"tensor" if c["tensor_factor"] else "python scalar"}) on {c["cls"]} with a {name}-dtype input: relative deviation {r["dev"]:.3g}')
        if r.get('adj_dev', 0) > 1e-12:
            return (f'adjoint of ({"s * A" if c["side"] == "left" else "A * s"}) != conj(s) scaled adjoint for s = {c["factor"]} on {c["cls"]} '
                    f'with a {name}-dtype input: relative deviation {r["adj_dev"]:.3g}')
    return None


FAMILIES = [Family('superposition', gen, impl, coq, PREAMBLE, compare, oracle,
                   nontrivial=lambda c: c['a'][1] != 0 and c['b'][1] != 0 and any(c['a']) and any(c['b']), descr=C01.descr, shard=30,
                   theorem='C02_closure, C02_matrix_action, C02_elementary'),
            Family('scaled_real_operator', gen_scaled, impl_scaled, None, '', None, oracle_scaled, descr=C01.descr,
                   theorem='C02_closure (scalings preserve linearity; (s A)(x) = s A(x), (A s)(x) = A(s x) for every scalar of the ring)')]
