"""C11 - equivalent axis specifications and batching give identical results."""
import itertools
import random

import numpy as np
import torch

import vlib
from vlib import Family, zlit, zlist

LEVEL = 'proof'
RULE = ('normalize_index: exhaustive over ndim<=6, index in [-ndim-2, ndim+2]; zero_pad_or_crop/ZeroPadOp: random rank 1-4 '
        'integer tensors with random (mixed-sign, reordered, incl. 0) dim encodings against the Coq model; metamorphic families '
        '(FastFourierOp, FiniteDifferenceOp, WaveletOp, functionals, sliding_window, reduce_view): all encodings of the same axes '
        'and batch-stacking on the implementation. Non-trivial = at least one axis changes size / one transformed axis; distinct by case hash.')
TRUSTED_BASE = ['translator harness/translate/zeropad.py (ast -> Gallina for normalize_index and the pad amounts; fail-closed)',
                'torch.nn.functional.pad, torch.fft, conv1d, ptwt as oracles (modelled, not verified)']
ASSUMPTIONS = ['F.pad semantics (pairs from the last axis, negative = crop) as documented by PyTorch']
PREAMBLE = 'From MrVerif Require Import Base.Prelude Base.Tensor Model.ZeroPad.'


# ------------------------------------------------------------------------------------------------
def translate(ctx):
    """Regenerate Gen/zeropad_gen.v from the current source and re-check its proof obligations."""
    from translate import zeropad
    out = vlib.COQ / 'Gen' / 'zeropad_gen.v'
    out.parent.mkdir(exist_ok=True)
    ok, why = zeropad.write(out)
    ctx.extra.setdefault('coverage', {})['translator_available'] = ok
    if not ok:
        ctx.notes.append(f'translator failed closed ({why}); C11 rests on correspondence alone in this run')
        ctx.obligations += 3
        ctx.problem('proof', 'gen_zeropad', None, f'zero_pad_or_crop.py is outside the translated subset ({why}): the regenerated obligations cannot be stated')
        return
    ctx.obligations += 3
    rc, so, se = vlib.coqc_file(out)
    if rc == 0:
        ctx.discharged += 3
    else:
        ctx.problem('proof', 'gen_zeropad', None,
                    'regenerated obligation gen_*_ok (code == model of zero_pad_or_crop.py) no longer proves: ' + (se or so)[-600:])


# ------------------------------------------------------------------------------------------------
def gen_norm(rng, tier):
    return [{'ndim': n, 'index': i} for n in range(1, 7) for i in range(-n - 2, n + 3)]


def impl_norm(c):
    from mrpro.utils.zero_pad_or_crop import normalize_index
    return normalize_index(c['ndim'], c['index'])


def coq_norm(c):
    return f'normalize_index {zlit(c["ndim"])} {zlit(c["index"])}'


def cmp_norm(c, o, m):
    want = None if m is None else m['some']
    got = None if isinstance(o, dict) else o
    if isinstance(o, dict) and o['raises'] != 'IndexError':
        return f'raises {o["raises"]} instead of IndexError'
    return None if want == got else f'model {want} impl {got}'


def oracle_norm(c, o):
    n, i = c['ndim'], c['index']
    if -n <= i < n:
        if isinstance(o, dict):
            return f'index {i} is inside [-{n},{n}) but is rejected ({o["raises"]})'
        if o != i % n:
            return f'index {i} of {n} axes normalised to {o}, expected {i % n}'
    elif not isinstance(o, dict):
        return f'index {i} outside [-{n},{n}) accepted as {o}'
    return None


# ------------------------------------------------------------------------------------------------
def rand_encoding(rng, axes, ndim):
    return [a if rng.random() < 0.5 else a - ndim for a in axes]


def gen_pad(rng, tier):
    cases = []
    for _ in range(60 if tier == 'quick' else 1500):
        nd = rng.randint(1, 4)
        shape = [rng.randint(1, 5) for _ in range(nd)]
        k = rng.randint(1, nd)
        axes = rng.sample(range(nd), k)
        sizes = [rng.choice([shape[a], rng.randint(1, 7)]) for a in axes]
        mode = rng.choice(['dims', 'dims', 'dims', 'last'])
        if mode == 'last':
            axes = list(range(nd - k, nd))
            cases.append({'shape': shape, 'dim': None, 'sizes': sizes, 'axes': axes})
        else:
            cases.append({'shape': shape, 'dim': rand_encoding(rng, axes, nd), 'sizes': sizes, 'axes': axes})
    # malformed stream: repeated axes, out-of-range, too many sizes
    for _ in range(8 if tier == 'quick' else 100):
        nd = rng.randint(1, 3)
        shape = [rng.randint(1, 4) for _ in range(nd)]
        kind = rng.choice(['repeat', 'range', 'len'])
        if kind == 'repeat':
            a = rng.randrange(nd)
            cases.append({'shape': shape, 'dim': [a, a - nd], 'sizes': [2, 3], 'axes': None})
        elif kind == 'range':
            cases.append({'shape': shape, 'dim': [rng.choice([nd, -nd - 1, nd + 1])], 'sizes': [2], 'axes': None})
        else:
            cases.append({'shape': shape, 'dim': [0], 'sizes': [2, 2], 'axes': None})
    return cases


def _data(shape):
    n = 1
    for s in shape:
        n *= s
    return torch.arange(1, n + 1, dtype=torch.float64).reshape(shape)


def impl_pad(c):
    from mrpro.operators import ZeroPadOp
    from mrpro.utils.zero_pad_or_crop import zero_pad_or_crop
    x = _data(c['shape'])
    y = zero_pad_or_crop(x, c['sizes'], c['dim'])
    out = {'shape': list(y.shape), 'data': [int(v) for v in y.flatten().tolist()]}
    if c['axes'] is not None and c['dim'] is not None:
        nd = len(c['shape'])
        variants = {}
        # all-non-negative, all-negative encodings and a reversed order of (dim, size) pairs
        for name, dims, sizes in (('nonneg', c['axes'], c['sizes']), ('neg', [a - nd for a in c['axes']], c['sizes']),
                                  ('reordered', c['dim'][::-1], c['sizes'][::-1])):
            try:
                v = zero_pad_or_crop(x, sizes, dims)
                variants[name] = [list(v.shape), [int(t) for t in v.flatten().tolist()]]
            except Exception as e:  # noqa: BLE001
                variants[name] = {'raises': vlib.exc_enum(e)}
        out['variants'] = variants
        try:
            orig = [c['shape'][a] for a in c['axes']]
            op = ZeroPadOp(dim=c['dim'], original_shape=orig, padded_shape=c['sizes'])
            (z,) = op(x)
            out['op'] = [list(z.shape), [int(t) for t in z.flatten().tolist()]]
            # batching: stack two copies along a new leading axis (dims given negative so they still fit)
            xb = torch.stack([x, 2 * x])
            opb = ZeroPadOp(dim=[a - nd for a in c['axes']], original_shape=orig, padded_shape=c['sizes'])
            (zb,) = opb(xb)
            out['batch_ok'] = bool(torch.equal(zb, torch.stack([z, 2 * z])))
        except Exception as e:  # noqa: BLE001
            out['op'] = {'raises': vlib.exc_enum(e), 'msg': str(e)[:100]}
    return out


def coq_pad(c):
    dim = 'None' if c['dim'] is None else f'(Some {zlist(c["dim"])})'
    n = 1
    for s in c['shape']:
        n *= s
    return f'zero_pad_or_crop 0%Z {zlist(c["shape"])} {zlist(range(1, n + 1))} {dim} {zlist(c["sizes"])}'


def cmp_pad(c, o, m):
    # model value: ('inr', [(shape, data)]) or ('inl', [('ErrIndex', [])])
    tag, args = m
    if tag == 'inl':
        want = {'ErrIndex': 'IndexError', 'ErrValue': 'ValueError'}[args[0][0]]
        if not (isinstance(o, dict) and o.get('raises') == want):
            return f'model rejects with {want}, impl gives {str(o)[:80]}'
        return None
    shape, data = args[0]
    if isinstance(o, dict) and 'raises' in o:
        return f'impl raises {o["raises"]} ({o.get("msg")}), model gives shape {shape}'
    if o['shape'] != shape or o['data'] != data:
        return f'model shape {shape} data {data[:12]}..., impl shape {o["shape"]} data {o["data"][:12]}...'
    return None


def oracle_pad(c, o):
    if isinstance(o, dict) and 'raises' in o:
        if c['axes'] is not None:
            return f'valid axis specification {c["dim"]} rejected: {o["raises"]} {o.get("msg")}'
        return None
    base = [o['shape'], o['data']]
    for name, v in o.get('variants', {}).items():
        if v != base:
            return f'encoding variant {name} of dims {c["dim"]} gives a different result'
    if 'op' in o and o['op'] != base:
        return f'ZeroPadOp disagrees with zero_pad_or_crop for dims {c["dim"]}: {str(o["op"])[:80]}'
    if o.get('batch_ok') is False:
        return 'ZeroPadOp on a stacked batch differs from stacking the results'
    return None


# ------------------------------------------------------------------------------------------------
# metamorphic families on the implementation (no model side): each returns the list of results for all encodings
def gen_meta(rng, tier):
    cases = []
    kinds = ['fft', 'fft_matrices', 'fft_matrices', 'findiff', 'functional', 'wavelet', 'sliding_window', 'reduce_view', 'filter', 'prewhiten']
    for _ in range(40 if tier == 'quick' else 600):
        nd = rng.randint(2, 4)
        shape = [rng.randint(2, 5) for _ in range(nd)]
        k = rng.randint(1, min(2, nd))
        axes = sorted(rng.sample(range(nd), k))
        cases.append({'kind': rng.choice(kinds), 'shape': shape, 'axes': axes, 'seed': rng.randrange(10 ** 6)})
    # fixed: the first axis named as 0 / -ndim, as int and as 1-tuple (a truthiness test on dim would read 0 as "no dim")
    for shape in ([3, 4], [2, 3, 4]):
        for kind in ('functional', 'findiff', 'filter'):
            cases.append({'kind': kind, 'shape': shape, 'axes': [0], 'seed': 7})
    # Rotation.mean over several batch dims: every order / sign of the dims, with and without keepdim
    for _ in range(4 if tier == 'quick' else 60):
        nd = rng.randint(2, 3)
        shape = [rng.randint(2, 3) for _ in range(nd)]
        axes = sorted(rng.sample(range(nd), 2))
        cases.append({'kind': 'rotation_mean', 'shape': shape, 'axes': axes, 'seed': rng.randrange(10 ** 6)})
    # SliceProjectionOp: a batch of slices (different profiles, shifts, rotations) equals the stack of the single-slice operators
    for _ in range(3 if tier == 'quick' else 40):
        cases.append({'kind': 'slice_batch', 'shape': [rng.randint(5, 8), rng.randint(5, 8), rng.randint(5, 8)], 'axes': [0],
                      'widths': [rng.choice([1.0, 1.5, 2.0, 3.0, 4.0]) for _ in range(3)], 'shifts': [rng.randint(-4, 4) / 2 for _ in range(3)],
                      'seed': rng.randrange(10 ** 6)})
    return cases


def _encodings(axes, nd):
    encs = []
    for signs in itertools.product([0, 1], repeat=len(axes)):
        encs.append([a - nd if s else a for a, s in zip(axes, signs)])
    return encs


def impl_meta(c):
    import mrpro.operators as ops
    from mrpro.operators.functionals import L1Norm, L2NormSquared
    g = torch.Generator().manual_seed(c['seed'])
    nd, axes = len(c['shape']), c['axes']
    x = torch.randint(-4, 5, c['shape'], generator=g).to(torch.float64)
    results, batch_ok = [], None
    kind = c['kind']
    if kind == 'rotation_mean':
        return _rotation_mean(c)
    if kind == 'slice_batch':
        return _slice_batch(c)
    for enc in _encodings(axes, nd):
        try:
            if kind == 'fft':
                xc = x.to(torch.complex128)
                op = ops.FastFourierOp(dim=tuple(enc))
                (y,) = op(xc)
                res = torch.view_as_real(y)
                (yb,) = ops.FastFourierOp(dim=tuple(a - nd for a in axes))(torch.stack([xc, 3 * xc]))
                batch_ok = bool(torch.allclose(yb, torch.stack([y, 3 * y]), atol=1e-12))
            elif kind == 'fft_matrices':
                # recon / encoding sizes given per axis: every ORDER of the axes with correspondingly permuted sizes (and both signs) is the same
                # operator, and equals an independent numpy pad + centred FFT
                rs = [c['shape'][a] for a in axes]
                es = [r + d for r, d in zip(rs, [1, 2, 0][:len(axes)])]
                xc = x.to(torch.complex128)
                outs = []
                for perm in itertools.permutations(range(len(axes))):
                    op = ops.FastFourierOp(dim=tuple(enc[i] for i in perm), recon_matrix=[rs[i] for i in perm], encoding_matrix=[es[i] for i in perm])
                    (y,) = op(xc)
                    (z,) = op.adjoint(y)
                    outs.append(torch.cat([torch.view_as_real(y).flatten(), torch.view_as_real(z).flatten()]))
                if any(o.shape != outs[0].shape or not torch.allclose(o, outs[0], atol=1e-12) for o in outs[1:]):
                    raise AssertionError('axis order with correspondingly permuted sizes changes the result')
                xn = x.numpy().astype(np.complex128)
                pad = [(0, 0)] * nd
                for a, r, e in zip(axes, rs, es):
                    before = e // 2 - r // 2
                    pad[a] = (before, e - r - before)
                ref = np.fft.fftshift(np.fft.fftn(np.fft.ifftshift(np.pad(xn, pad), axes=axes), axes=axes, norm='ortho'), axes=axes)
                yy = outs[0][:2 * ref.size].reshape(*ref.shape, 2).numpy()
                if not np.allclose(yy[..., 0] + 1j * yy[..., 1], ref, atol=1e-10):
                    raise AssertionError('FastFourierOp with recon/encoding matrices differs from numpy pad + centred FFT')
                res = outs[0]
            elif kind == 'findiff':
                op = ops.FiniteDifferenceOp(dim=tuple(enc), mode='forward', pad_mode='circular')
                (res,) = op(x)
                (yb,) = ops.FiniteDifferenceOp(dim=tuple(a - nd for a in axes), mode='forward', pad_mode='circular')(torch.stack([x, 3 * x]))
                batch_ok = bool(torch.equal(yb.movedim(1, 0), torch.stack([res, 3 * res])))
            elif kind == 'functional':
                f = L1Norm(dim=tuple(enc), divide_by_n=True, keepdim=True)
                h = L2NormSquared(dim=tuple(enc), divide_by_n=False, keepdim=False)
                res = torch.cat([f(x)[0].flatten(), h(x)[0].flatten(), f.prox(x, 0.5)[0].flatten()])
                if len(enc) == 1:     # one axis named by a plain int (incl. 0) instead of a 1-tuple: the same functional
                    fi = L1Norm(dim=enc[0], divide_by_n=True, keepdim=True)
                    hi = L2NormSquared(dim=enc[0], divide_by_n=False, keepdim=False)
                    ri = [fi(x)[0], hi(x)[0], fi.prox(x, 0.5)[0]]
                    rt = [f(x)[0], h(x)[0], f.prox(x, 0.5)[0]]
                    if any(a.shape != b.shape or not torch.equal(a, b) for a, b in zip(ri, rt)):
                        raise AssertionError(f'dim={enc[0]} (int) gives a different functional than dim=({enc[0]},)')
            elif kind == 'functional_target':
                # target (and weight) with more leading dims than x: the reduced sizes are those of the broadcast shape
                tgt = torch.randint(-3, 4, (2, *c['shape']), generator=torch.Generator().manual_seed(c['seed'] + 1)).to(torch.float64)
                ndb = nd + 1
                enc_b = tuple(a + 1 if a >= 0 else a for a in enc)   # the same axes of the broadcast shape
                from mrpro.operators.functionals import MSE, L1NormViewAsReal
                outs = []
                for cls_ in (L2NormSquared, MSE, L1Norm, L1NormViewAsReal):
                    f = cls_(target=tgt, weight=2.0, dim=enc_b, divide_by_n=True, keepdim=False)
                    outs += [f(x)[0].flatten(), f.prox(x, 0.5)[0].flatten(), f.prox_convex_conj(x, 0.5)[0].flatten()]
                res = torch.cat(outs)
            elif kind == 'prewhiten':
                res = _prewhiten_batching(c)
                results.append([list(res.shape), res.flatten().tolist()])
                break
            elif kind == 'wavelet':
                if any(c['shape'][a] < 2 for a in axes):
                    return {'skip': True}
                op = ops.WaveletOp(domain_shape=[c['shape'][a] for a in axes], dim=tuple(enc), wavelet_name='haar', level=1)
                (res,) = op(x)
            elif kind == 'sliding_window':
                from mrpro.utils.sliding_window import sliding_window
                res = sliding_window(x, window_shape=[2] * len(axes), dim=tuple(enc))
            elif kind == 'reduce_view':
                from mrpro.utils.reshape import reduce_view
                xe = x[(slice(0, 1),) * 1].expand(3, *x.shape[1:]) if x.shape[0] == 1 else x
                res = reduce_view(xe.unsqueeze(0).expand(2, *xe.shape), dim=None)
                results.append([list(res.shape)])
                continue
            elif kind == 'filter':
                from mrpro.utils.filters import uniform_filter
                res = uniform_filter(x, width=3, dim=tuple(enc))
            results.append([list(res.shape), res.flatten().tolist()])
        except Exception as e:  # noqa: BLE001
            results.append({'raises': vlib.exc_enum(e), 'msg': str(e)[:120]})
    return {'results': results, 'batch_ok': batch_ok}


def _rotation_mean(c):
    """Rotation.mean(dim=...) for every order and sign of the same set of dims, keepdim False / True: one result (as matrices)"""
    from mrpro.data import Rotation
    g = torch.Generator().manual_seed(c['seed'])
    nd, axes = len(c['shape']), c['axes']
    rv = torch.randint(-6, 7, (*c['shape'], 3), generator=g).to(torch.float64) / 8
    r = Rotation.from_rotvec(rv)
    w = torch.randint(1, 5, c['shape'], generator=g).to(torch.float64)
    results = []
    for keep in (False, True):
        for enc in _encodings(axes, nd):
            for perm in itertools.permutations(range(len(axes))):
                d = tuple(enc[i] for i in perm)
                try:
                    m = r.mean(weights=w, dim=d, keepdim=keep)
                    mat = m.as_matrix()
                    results.append([[keep, list(d)], list(m.shape), mat.flatten().tolist()])
                except Exception as e:  # noqa: BLE001
                    results.append([[keep, list(d)], {'raises': vlib.exc_enum(e), 'msg': str(e)[:120]}])
    return {'rotation_mean': results}


def _slice_batch(c):
    """a batch of three slices with different profiles / shifts / rotations vs three single-slice operators (forward and adjoint)"""
    import mrpro.operators as ops
    from mrpro.data import Rotation, SpatialDimension
    from mrpro.utils.slice_profiles import SliceGaussian, SliceSmoothedRectangular
    g = torch.Generator().manual_seed(c['seed'])
    profs = [SliceGaussian(c['widths'][0]), SliceSmoothedRectangular(c['widths'][1], 0.5), SliceGaussian(c['widths'][2])]
    rot = Rotation.from_rotvec(torch.randint(-4, 5, (3, 3), generator=g).to(torch.float64) / 8)
    shift = torch.tensor(c['shifts'], dtype=torch.float64)
    shape = SpatialDimension(*c['shape'])
    x = torch.randint(-4, 5, c['shape'], generator=g).to(torch.float32)     # the projection matrices are float32
    whole = ops.SliceProjectionOp(shape, slice_rotation=rot, slice_shift=shift, slice_profile=profs)
    (yw,) = whole(x)
    u = torch.randint(-4, 5, list(yw.shape), generator=g).to(torch.float32)
    (zw,) = whole.adjoint(u)
    dev_f = dev_a = 0.0
    zsum = torch.zeros_like(zw)
    for i in range(3):
        single = ops.SliceProjectionOp(shape, slice_rotation=rot[i], slice_shift=float(shift[i]), slice_profile=profs[i])
        (yi,) = single(x)
        dev_f = max(dev_f, float((yw[i] - yi.reshape(yw[i].shape)).abs().max()))
        zsum = zsum + single.adjoint(u[i].reshape(yi.shape))[0].reshape(zw.shape)
    dev_a = float((zw - zsum).abs().max())
    return {'slice_batch': [dev_f / float(max(1.0, yw.abs().max())), dev_a / float(max(1.0, zw.abs().max()))]}


def _prewhiten_batching(c):
    """prewhitening a stack along `other` equals stacking the prewhitened elements (returns the deviation)"""
    from mrpro.algorithms.prewhiten_kspace import prewhiten_kspace
    from mrpro.data import KNoise
    from props import C07
    g = torch.Generator().manual_seed(c['seed'])
    no, nc, n2, n1, n0 = 2 + c['seed'] % 2, 2, 1 + c['seed'] % 3, 2 + c['seed'] % 2, 3
    cfg = {'n_other': no, 'n_coils': nc, 'k1': list(range(n1)), 'n_k0': n0, 'enc_y': n1, 'recon_y': n1, 'recon_x': n0, 'n_k2': n2}
    data = (torch.randint(-3, 4, (no, nc, n2, n1, n0), generator=g) + 1j * torch.randint(-3, 4, (no, nc, n2, n1, n0), generator=g)).to(torch.complex64)
    nz = (torch.randint(-3, 4, (nc, 1, 1, 16), generator=g) + 1j * torch.randint(-3, 4, (nc, 1, 1, 16), generator=g)).to(torch.complex64)
    nz = nz + (torch.eye(nc, 16) * 6).reshape(nc, 1, 1, 16)
    noise = KNoise(data=nz)
    whole = prewhiten_kspace(C07._make_kdata(cfg, data), noise).data
    parts = [prewhiten_kspace(C07._make_kdata(dict(cfg, n_other=1), data[o:o + 1]), noise).data for o in range(no)]
    return torch.view_as_real((whole - torch.cat(parts)).abs().max().reshape(1).to(torch.complex64))


def oracle_meta(c, o):
    if isinstance(o, dict) and o.get('skip'):
        return None
    if isinstance(o, dict) and 'raises' in o:
        return f'crashed: {o}'
    if 'rotation_mean' in o:
        rs = o['rotation_mean']
        for keep in (False, True):
            grp = [r for r in rs if r[0][0] == keep]
            if all(isinstance(r[1], dict) for r in grp) and len({r[1]['raises'] for r in grp}) == 1:
                continue
            ref = next(r for r in grp if not isinstance(r[1], dict))
            for r in grp:
                if isinstance(r[1], dict):
                    return f'Rotation.mean(dim={tuple(r[0][1])}, keepdim={keep}) raised {r[1]} while dim={tuple(ref[0][1])} works (batch shape {c["shape"]})'
                if r[1] != ref[1]:
                    return f'Rotation.mean(dim={tuple(r[0][1])}, keepdim={keep}) has shape {r[1]} but dim={tuple(ref[0][1])} gives {ref[1]} (batch shape {c["shape"]})'
                if any(abs(a - b) > 1e-9 for a, b in zip(r[2], ref[2])):
                    return f'Rotation.mean(dim={tuple(r[0][1])}, keepdim={keep}) differs from dim={tuple(ref[0][1])} (batch shape {c["shape"]})'
        return None
    if 'slice_batch' in o:
        df, da = o['slice_batch']
        if df > 1e-5 or da > 1e-5:
            return (f'SliceProjectionOp with a batch of slices (profile widths {c["widths"]}, shifts {c["shifts"]}) differs from the stacked single-slice '
                    f'operators: forward {df:.3g}, adjoint {da:.3g} (relative)')
        return None
    rs = o['results']
    if c['kind'] == 'prewhiten' and rs and not isinstance(rs[0], dict):
        return None if max(abs(v) for v in rs[0][1]) < 1e-5 else f'prewhiten_kspace of a stack along `other` differs from the stacked results by {max(abs(v) for v in rs[0][1]):.3g}'
    for r in rs:
        if isinstance(r, dict) and r.get('raises') == 'AssertionError':
            return f'{c["kind"]}: {r.get("msg")} (shape {c["shape"]}, axes {c["axes"]})'
    if all(isinstance(r, dict) for r in rs) and len({r['raises'] for r in rs}) == 1:
        return None  # the configuration is outside the operation's domain for every encoding alike (e.g. odd size for ptwt)
    for enc, r in zip(_encodings(c['axes'], len(c['shape'])), rs):
        if isinstance(r, dict):
            return f'{c["kind"]}: valid axis encoding {enc} rejected: {r}'
        if isinstance(rs[0], dict) or r[0] != rs[0][0]:
            return f'{c["kind"]}: encoding {enc} gives shape {r[0]} vs {rs[0][0]}'
        if len(r) > 1 and any(abs(a - b) > 1e-9 for a, b in zip(r[1], rs[0][1])):
            return f'{c["kind"]}: encoding {enc} gives different values than {_encodings(c["axes"], len(c["shape"]))[0]}'
    if o.get('batch_ok') is False:
        return f'{c["kind"]}: result on a stacked batch differs from the stacked results'
    return None


FAMILIES = [
    Family('normalize_index', gen_norm, impl_norm, coq_norm, PREAMBLE, cmp_norm, oracle_norm,
           nontrivial=lambda c: -c['ndim'] <= c['index'] < c['ndim'], theorem='C11_normalize_index_spec'),
    Family('zero_pad_or_crop', gen_pad, impl_pad, coq_pad, PREAMBLE, cmp_pad, oracle_pad,
           nontrivial=lambda c: c['axes'] is not None and any(c['shape'][a] != s for a, s in zip(c['axes'], c['sizes'])),
           theorem='C11_reencode, C11_dim_order, C11_batch'),
    Family('axis_encodings_metamorphic', gen_meta, impl_meta, None, '', None, oracle_meta, theorem='(implementation-level)'),
]
