"""C03 - Fourier operators compute the MR encoding model at the trajectory points."""
import itertools
import math

import numpy as np
import torch

import opzoo
import vlib
from vlib import Family, zlist, zlit

LEVEL = 'proof'
RULE = ('FastFourierOp: seeded rank 1-3 shapes, dim subsets, recon/encoding sizes 1..7 of both parities (pad and crop): dense forward AND adjoint '
        'matrices against the symbolic phase tables of the Coq model (c * exp(-2 pi i e / N)); FourierOp: 1-D/2-D/3-D recon/encoding matrices of both '
        'parities with Cartesian trajectories (sorted, shuffled, undersampled, singleton axes, broadcast/dense), partially on-grid and fully '
        'non-Cartesian rational trajectories: every sample against the explicit encoding sum of the property statement, the constant c fitted and '
        'compared with the size-only prediction, FFT-vs-NUFFT dispatch compared on the same integer trajectory. Non-trivial = at least one transformed '
        'axis of size >= 2; distinct by case hash.')
TRUSTED_BASE = ['translator harness/translate/fourier.py (ast -> Gallina for the sampling index arithmetic and the shift/FFT nesting; fail-closed)',
                'torch.fft (fftn/ifftn/fftshift/ifftshift) and torchkbnufft as oracles; the NUFFT meeting its specification '
                '(non-uniform DFT up to ~1e-3) is validated at 2e-2, not proved',
                'the Kronecker combination of per-axis phase tables is done in the harness (the per-axis lifting is C01_along_axis)']
ASSUMPTIONS = ['complex exponentials are evaluated in float64 by the harness from the integer exponents of the model']
PREAMBLE = 'From MrVerif Require Import Base.Prelude Model.ZeroPad Model.Fourier.'


# ---------------------------------------------------------------------------------------------------
def gen_fft(rng, tier):
    out = []
    for _ in range(40 if tier == 'quick' else 800):
        c = opzoo.gen_fft(rng)
        if 'enc' not in c:
            c['recon'] = [c['shape'][a] for a in c['axes']]
            c['enc'] = list(c['recon'])
            c['nopad'] = True
        out.append(c)
    # all mixed-parity pairs on one axis (the centre convention)
    for n, N in itertools.product(range(1, 7 if tier == 'quick' else 10), repeat=2):
        out.append({'cls': 'FastFourierOp', 'shape': [n], 'axes': [0], 'dims': [0], 'recon': [n], 'enc': [N]})
    return out


def impl_fft(c):
    cfg = dict(c)
    if cfg.get('nopad'):
        cfg.pop('enc'), cfg.pop('recon')
    op, in_shape = opzoo.build(cfg)
    F, G, out_shape = opzoo.dense(op, in_shape)
    return {'F': [[[v.real, v.imag] for v in col] for col in F.T.tolist()], 'G': [[[v.real, v.imag] for v in col] for col in G.T.tolist()],
            'out': out_shape}


def coq_fft(c):
    return '[' + '; '.join(f'(fft_table {zlit(n)} {zlit(N)}, ifft_table {zlit(n)} {zlit(N)})' for n, N in zip(c['recon'], c['enc'])) + ']'


def _table_to_matrix(tab, N, conj=False):
    M = np.zeros((len(tab), len(tab[0]) if tab else 0), dtype=np.complex128)
    for i, row in enumerate(tab):
        for j, e in enumerate(row):
            if e is not None:
                M[i, j] = np.exp((2j if conj else -2j) * np.pi * e['some'] / N) / math.sqrt(N)
    return M


def _kron_along(shape, axes, mats):
    """dense matrix of applying mats[k] along axes[k] of a row-major tensor of the given shape"""
    shape = list(shape)
    total = np.eye(int(np.prod(shape)), dtype=np.complex128)
    for a, M in zip(axes, mats):
        pre, post = int(np.prod(shape[:a])), int(np.prod(shape[a + 1:]))
        K = np.kron(np.kron(np.eye(pre), M), np.eye(post))
        total = K @ total
        shape[a] = M.shape[0]
    return total


def cmp_fft(c, o, m):
    if 'raises' in o:
        return f'impl raises {o["raises"]}: {o.get("msg")}'
    fw = [_table_to_matrix(t[0], N) for t, N in zip(m, c['enc'])]
    bw = [_table_to_matrix(t[1], N, conj=True) for t, N in zip(m, c['enc'])]
    MF = _kron_along(c['shape'], c['axes'], fw)
    out_shape = list(c['shape'])
    for a, N in zip(c['axes'], c['enc']):
        out_shape[a] = N
    MG = _kron_along(out_shape, c['axes'], bw)
    F = (np.array(o['F'])[..., 0] + 1j * np.array(o['F'])[..., 1]).T
    G = (np.array(o['G'])[..., 0] + 1j * np.array(o['G'])[..., 1]).T
    if F.shape != MF.shape or np.abs(F - MF).max() > 1e-10:
        return f'forward FFT matrix differs from the model (max {np.abs(F - MF).max() if F.shape == MF.shape else "shape"})'
    if G.shape != MG.shape or np.abs(G - MG).max() > 1e-10:
        return f'adjoint FFT matrix differs from the model (max {np.abs(G - MG).max() if G.shape == MG.shape else "shape"})'
    return None


def oracle_fft(c, o):
    """the property's own statement on the implementation: centred DFT sum, unitarity without cropping"""
    if 'raises' in o:
        return f'FastFourierOp raised {o["raises"]}: {o.get("msg")}'
    F = (np.array(o['F'])[..., 0] + 1j * np.array(o['F'])[..., 1]).T
    G = (np.array(o['G'])[..., 0] + 1j * np.array(o['G'])[..., 1]).T
    mats = []
    for n, N in zip(c['recon'], c['enc']):
        M = np.zeros((N, n), dtype=np.complex128)
        for kp in range(N):
            for r in range(n):
                rp = r + (N // 2 - n // 2)
                if 0 <= rp < N:
                    M[kp, r] = np.exp(-2j * np.pi * (kp - N // 2) * (r - n // 2) / N) / math.sqrt(N)
        mats.append(M)
    ref = _kron_along(c['shape'], c['axes'], mats)
    if F.shape != ref.shape or np.abs(F - ref).max() > 1e-10:
        i, j = np.unravel_index(np.argmax(np.abs(F - ref)), F.shape) if F.shape == ref.shape else (0, 0)
        return (f'FastFourierOp(recon {c["recon"]}, enc {c["enc"]}, dims {c["dims"]}) is not c*sum_r x[r] exp(-2 pi i k (r - n//2)/N): '
                f'entry ({i},{j}) is {F[i, j] if F.shape == ref.shape else F.shape}, expected {ref[i, j] if F.shape == ref.shape else ref.shape}')
    if all(n == N for n, N in zip(c['recon'], c['enc'])):
        if np.abs(G @ F - np.eye(F.shape[1])).max() > 1e-10 or np.abs(F @ G - np.eye(F.shape[0])).max() > 1e-10:
            return 'FastFourierOp without cropping is not unitary (F^H F != I or F F^H != I)'
    return None


# ---------------------------------------------------------------------------------------------------
def gen_fourier(rng, tier):
    out = []
    for _ in range(36 if tier == 'quick' else 700):
        threeD = rng.random() < 0.3
        nz = rng.randint(2, 4) if threeD else 1
        recon = [nz, rng.randint(2, 6), rng.randint(2, 6)]
        enc = [rng.randint(2, 5) if threeD else 1, rng.choice([recon[1], rng.randint(2, 7)]), rng.choice([recon[2], rng.randint(2, 7)])]
        kind = rng.choice(['cart', 'cart_jitter', 'cart_shuffled', 'cart_under', 'partial', 'noncart', 'dense_cart'])

        def full(N):
            return [i - N // 2 for i in range(N)]
        if kind in ('partial', 'noncart'):
            # torchkbnufft is only accurate (~1e-3) for image sizes >= 4 (measured: 5e-2 at size 2, 5e-3 at size 3)
            recon[1], recon[2] = max(recon[1], 4), max(recon[2], 4)
        c = {'recon': recon, 'enc': enc, 'kind': kind, 'seed': rng.randrange(10 ** 6)}
        if kind in ('partial', 'noncart') and rng.random() < 0.5:
            c['kbwidth'] = rng.choice([2.0, 3.0])   # non-default Kaiser-Bessel width (default 2.34)
            c['numpoints'] = rng.choice([5, 6])
        if kind in ('partial', 'noncart') and 'kbwidth' not in c and rng.random() < 0.6:
            c['os'] = rng.choice([1.5, 1.75, 2.5])   # non-integer oversampling: grid_size = int(size * oversampling)
        if kind.startswith('cart') or kind == 'dense_cart':
            ks = []
            for N in enc:
                s = full(N)
                if kind == 'cart_shuffled':
                    rng.shuffle(s)
                if kind == 'cart_under' and N > 2:
                    s = sorted(rng.sample(s, rng.randint(2, N)))
                ks.append(s)
            if kind == 'cart_jitter':
                # on the grid only within the grid detection tolerance (1e-3): must be treated as the integer position
                ks = [[k + rng.choice([-1, 1]) * rng.choice([2.0 ** -12, 2.0 ** -11, 3 * 2.0 ** -12]) if len(s_) > 1 else k for k in s_] for s_ in ks]
            c['kz'], c['ky'], c['kx'] = ks
            if kind == 'dense_cart':
                pts = [[a, b, d] for a in ks[0] for b in ks[1] for d in ks[2]]
                rng.shuffle(pts)
                c['points'] = pts
                c['tshape'] = [len(ks[0]), len(ks[1]), len(ks[2])]
        elif kind == 'partial':
            # kx (along k0) integer on grid, ky non-Cartesian rational along k1: stack-of-... layout; kz singleton/cartesian
            c['kz'] = full(enc[0])
            c['kx'] = full(enc[2])
            m = rng.choice([2, 3, 4])
            c['ky'] = sorted({rng.randint(-(enc[1] // 2) * m, (enc[1] - enc[1] // 2 - 1) * m) / m for _ in range(rng.randint(2, 5))} | {0.25})
            if len(c['ky']) < 2:      # a single-valued direction is not sampled at all (FourierOp passes it through): outside this family
                c['ky'].append(c['ky'][0] - 0.5)
        else:
            n = rng.randint(3, 8)
            m = rng.choice([2, 4, 8])
            c['points2d'] = [[rng.randint(-(enc[1] // 2) * m, (enc[1] - enc[1] // 2 - 1) * m) / m + (0.125 if i == 0 else 0),
                              rng.randint(-(enc[2] // 2) * m, (enc[2] - enc[2] // 2 - 1) * m) / m] for i in range(n)]
            c['recon'][0], c['enc'][0] = 1, 1
        out.append(c)
    # fixed: as many Cartesian samples as grid points, ascending, one point twice and one never (the already-sorted shortcut must not apply)
    for enc, kz, ky, kx in (([1, 1, 8], [0], [0], [-4, -3, -2, -1, 0, 0, 1, 2]), ([1, 4, 2], [0], [-2, -1, 0, 0], [-1, 0]),
                            ([1, 1, 6], [0], [0], [0, 0, 0, 0, 0, 0]), ([1, 4, 4], [0], [-2, -1, 0, 1], [-2, -2, 0, 1])):
        out.append({'recon': list(enc), 'enc': list(enc), 'kind': 'cart_full_count_duplicate', 'seed': 1, 'kz': kz, 'ky': ky, 'kx': kx})
    # fixed: non-Cartesian samples beyond the edge of the encoded k-space (|k| > N_enc / 2): still exp(-2 pi i k r / N_enc)
    for pts in ([[0.25, 0.0], [2.5, -1.0], [-3.25, 0.5], [1.0, 3.5], [-2.0, -3.75], [3.0, 3.0]], [[0.125, 2.75], [-2.5, 0.0], [1.5, -2.5], [0.0, 0.0]]):
        out.append({'recon': [1, 4, 4], 'enc': [1, 4, 4], 'kind': 'noncart', 'seed': 2, 'points2d': pts, 'overshoot': True})
    # 2-D non-Cartesian sampling that differs from slice to slice (kz single-valued: z is a batch direction; one `other`): every slice must be
    # encoded with its own sample positions
    for i in range(3 if tier == 'quick' else 40):
        nz, n = rng.randint(2, 4), rng.randint(3, 6)
        ny, nx = rng.randint(4, 6), rng.randint(4, 6)
        sl = [[[rng.randint(-(ny // 2) * 4, (ny - ny // 2 - 1) * 4) / 4 + (0.125 if j == 0 else 0), rng.randint(-(nx // 2) * 4, (nx - nx // 2 - 1) * 4) / 4]
               for j in range(n)] for _ in range(nz)]
        out.append({'recon': [nz, ny, nx], 'enc': [nz, ny, nx], 'kind': 'noncart_multislice', 'seed': rng.randrange(10 ** 6), 'slices': sl})
    return out


def _traj(c):
    from mrpro.data import KTrajectory
    f = lambda v, shape: torch.tensor(v, dtype=torch.float64).reshape(shape)  # noqa: E731
    tol = c.get('grid_tol', 1e-3)
    if 'points' in c:
        p = torch.tensor(c['points'], dtype=torch.float64).reshape(1, *c['tshape'], 3)
        return KTrajectory(p[..., 0], p[..., 1], p[..., 2], repeat_detection_tolerance=None, grid_detection_tolerance=tol), c['points']
    if 'slices' in c:
        p = torch.tensor(c['slices'], dtype=torch.float64)      # (nz, n, 2)
        nz, n = p.shape[:2]
        kz = torch.zeros(1, 1, 1, 1, dtype=torch.float64)
        return (KTrajectory(kz, p[..., 0].reshape(1, nz, 1, n), p[..., 1].reshape(1, nz, 1, n), repeat_detection_tolerance=None, grid_detection_tolerance=tol),
                [[float(z), a, b] for z, slc in enumerate(c['slices']) for a, b in slc])
    if 'points2d' in c:
        p = torch.tensor(c['points2d'], dtype=torch.float64)
        n = p.shape[0]
        kz = torch.zeros(1, 1, 1, 1, dtype=torch.float64)
        return (KTrajectory(kz, p[:, 0].reshape(1, 1, 1, n), p[:, 1].reshape(1, 1, 1, n), repeat_detection_tolerance=None, grid_detection_tolerance=tol),
                [[0.0, a, b] for a, b in c['points2d']])
    kz, ky, kx = f(c['kz'], (1, -1, 1, 1)), f(c['ky'], (1, 1, -1, 1)), f(c['kx'], (1, 1, 1, -1))
    pts = [[a, b, d] for a in c['kz'] for b in c['ky'] for d in c['kx']]
    return KTrajectory(kz, ky, kx, repeat_detection_tolerance=None, grid_detection_tolerance=tol), pts


def build_fourier(c, traj=None):
    """FourierOp of a case (non-default NUFFT kernel parameters when the case names them)"""
    from mrpro.data import SpatialDimension
    from mrpro.operators import FourierOp
    if traj is None:
        traj, _ = _traj(c)
    kw = {}
    if 'kbwidth' in c:
        kw['nufft_kbwidth'] = c['kbwidth']
    if 'numpoints' in c:
        kw['nufft_numpoints'] = c['numpoints']
    if 'os' in c:
        kw['nufft_oversampling'] = c['os']
    return FourierOp(SpatialDimension(*c['recon']), SpatialDimension(*c['enc']), traj, **kw)


def impl_fourier(c):
    from mrpro.data import SpatialDimension
    from mrpro.operators import FourierOp
    traj, pts = _traj(c)
    op = build_fourier(c, traj)
    g = torch.Generator().manual_seed(c['seed'])
    x = (torch.randint(-4, 5, (1, 1, *c['recon']), generator=g) + 1j * torch.randint(-4, 5, (1, 1, *c['recon']), generator=g)).to(torch.complex128)
    (y,) = op(x)
    res = {'y': [[v.real, v.imag] for v in y.reshape(-1).tolist()], 'yshape': list(y.shape), 'tshape': list(traj.broadcasted_shape),
           'x': [[v.real, v.imag] for v in x.reshape(-1).tolist()], 'pts': pts,
           'paths': {'fft': list(op._fft_dims), 'nufft': list(op._nufft_dims), 'ignore': list(op._ignore_dims)}}
    # the same trajectory forced through the NUFFT (grid detection off) - "must not depend on the internal choice"
    if op._fft_dims and not op._nufft_dims and all(n >= 4 for n, d in zip(c['recon'], (-3, -2, -1)) if d in op._fft_dims):
        try:
            c2 = dict(c, grid_tol=-1.0)
            traj2, _ = _traj(c2)
            op2 = build_fourier(c2, traj2)
            (y2,) = op2(x)
            res['y_nufft'] = [[v.real, v.imag] for v in y2.reshape(-1).tolist()]
            res['paths2'] = {'fft': list(op2._fft_dims), 'nufft': list(op2._nufft_dims)}
        except NotImplementedError:
            pass
    return res


def _reference(c, o):
    """explicit encoding sum of the property statement (without the constant c)"""
    recon, enc = c['recon'], c['enc']
    x = np.array([complex(*v) for v in o['x']]).reshape(recon)
    pts = np.array(o['pts'], dtype=np.float64)
    ref = np.zeros(len(pts), dtype=np.complex128)
    ign = o['paths']['ignore']
    nuf = o['paths']['nufft']
    grids = np.meshgrid(*[np.arange(n) for n in recon], indexing='ij')
    for s, k in enumerate(pts):
        phase = np.zeros(recon)
        mask = np.ones(recon, dtype=bool)
        if 'slices' in c:      # the first coordinate of these points is the slice the sample belongs to (z is a batch direction)
            mask &= grids[0] == int(k[0])
        for ax, d in enumerate((-3, -2, -1)):
            if d in ign:
                continue
            n, N = recon[ax], enc[ax]
            kk = k[ax] if d in nuf else round(k[ax])   # an FFT (on-grid) axis samples the integer grid position
            phase = phase + kk * (grids[ax] - n // 2) / N
            if d not in nuf:
                # FFT axis: zero padding / cropping window (cropping restricts the sum to the centred window)
                rp = grids[ax] + (N // 2 - n // 2)
                mask &= (rp >= 0) & (rp < N)
                if not (-(N // 2) <= kk < N - N // 2):
                    mask &= False
        ref[s] = (x * np.exp(-2j * np.pi * phase) * mask).sum()
    return ref


def _predicted_c(c, o, os_factor=2.0):
    cst = 1.0
    for ax, d in enumerate((-3, -2, -1)):
        if d in o['paths']['fft']:
            cst /= math.sqrt(c['enc'][ax])
        elif d in o['paths']['nufft']:
            cst /= math.sqrt(int(c['recon'][ax] * c.get('os', os_factor)))
    return cst


def oracle_fourier(c, o):
    if 'raises' in o:
        if o['raises'] == 'NotImplementedError':
            return None  # documented restriction on mixed FFT/NUFFT layouts
        return f'FourierOp raised {o["raises"]}: {o.get("msg")}'
    y = np.array([complex(*v) for v in o['y']])
    if o['yshape'][-3:] != o['tshape'][-3:]:
        return f'samples do not appear in the shape of the trajectory: {o["yshape"]} vs {o["tshape"]}'
    ref = _reference(c, o)
    nufft = bool(o['paths']['nufft'])
    tol = 2e-2 if nufft else 1e-9
    nr = np.linalg.norm(ref)
    if nr < 1e-9:
        return None if np.linalg.norm(y) < 1e-9 else 'non-zero output where the encoding sum vanishes'
    cfit = np.vdot(ref, y) / np.vdot(ref, ref)
    resid = np.linalg.norm(y - cfit * ref) / (abs(cfit) * nr)
    if resid > tol:
        s = int(np.argmax(np.abs(y - cfit * ref)))
        return (f'sample {s} (k={o["pts"][s]}) is {y[s]:.6g}, the encoding model c*sum_r x[r] exp(-2 pi i k.(r-r_c)/N_enc) gives '
                f'{(cfit * ref[s]):.6g} (relative residual {resid:.3g}, paths {o["paths"]})')
    cpred = _predicted_c(c, o)
    if abs(cfit.imag) > tol * abs(cfit) or cfit.real <= 0 or abs(cfit.real - cpred) > (2e-2 if nufft else 1e-9) * cpred + (1e-12):
        return f'constant c = {cfit:.6g} is not the positive size-only constant {cpred:.6g} (paths {o["paths"]})'
    if 'y_nufft' in o and o.get('paths2', {}).get('nufft'):
        y2 = np.array([complex(*v) for v in o['y_nufft']])
        o2 = dict(o, paths={'fft': o['paths2']['fft'], 'nufft': o['paths2']['nufft'], 'ignore': o['paths']['ignore']})
        # only compare where no cropping happens (the NUFFT is defined on the recon grid, the FFT path crops to the encoding window)
        if all(n <= N for n, N in zip(c['recon'], c['enc'])):
            a, b = y / cpred, y2 / _predicted_c(c, o2)
            if np.linalg.norm(a - b) > 2e-2 * max(np.linalg.norm(a), 1e-9):
                return f'result depends on the internal choice FFT vs NUFFT beyond the constant: relative difference {np.linalg.norm(a - b) / np.linalg.norm(a):.3g}'
    return None


def coq_fourier(c):
    # per-axis phase tables for the integer (on-grid) axes; non-integer axes are left to the oracle (NUFFT specification)
    parts = []
    for ax, key in enumerate(('kz', 'ky', 'kx')):
        ks = c.get(key)
        if ks is not None and all(abs(k - round(k)) <= 1e-3 for k in ks) and 'points' not in c and 'points2d' not in c:
            parts.append(f'fourier_table {zlit(c["recon"][ax])} {zlit(c["enc"][ax])} {zlist([int(round(k)) for k in ks])}')
        else:
            parts.append('(nil : list (list (option Z)))')
    return '[' + '; '.join(parts) + ']'


def cmp_fourier(c, o, m):
    if 'raises' in o or 'points' in c or 'points2d' in c or o['paths']['nufft']:
        return None
    # all three axes Cartesian (or ignored): y = kron of per-axis tables applied to x
    mats = []
    for ax, d in enumerate((-3, -2, -1)):
        n, N = c['recon'][ax], c['enc'][ax]
        if d in o['paths']['ignore']:
            mats.append(np.eye(n)[:1] if n == 1 else None)
            if n != 1:
                return None
        else:
            mats.append(_table_to_matrix(m[ax], N))
    x = np.array([complex(*v) for v in o['x']])
    M = _kron_along(c['recon'], [0, 1, 2], mats)
    y = np.array([complex(*v) for v in o['y']])
    if M.shape[0] != y.shape[0] or np.abs(M @ x - y).max() > 1e-9 * max(1.0, np.abs(y).max()):
        return f'FourierOp output differs from the symbolic FFT-path model (max {np.abs(M @ x - y).max() if M.shape[0] == y.shape[0] else "shape"})'
    return None



def translate(ctx):
    """Regenerate Gen/fourier_gen.v (index arithmetic of CartesianSamplingOp, shift/transform nesting of FastFourierOp) and re-check
    the obligations gen_* = model."""
    from translate import fourier
    out = vlib.COQ / 'Gen' / 'fourier_gen.v'
    out.parent.mkdir(exist_ok=True)
    ok, why = fourier.write(out)
    ctx.extra.setdefault('coverage', {})['translator_available'] = ok
    if not ok:
        ctx.notes.append(f'translator harness/translate/fourier.py failed closed ({why})')
        ctx.problem('proof', 'gen_fourier', None, f'CartesianSamplingOp.py / FastFourierOp.py are outside the translated subset ({why}): the regenerated obligations cannot be stated')
        return
    ctx.obligations += fourier.N_OBLIGATIONS
    rc, so, se = vlib.coqc_file(out)
    if rc == 0:
        ctx.discharged += fourier.N_OBLIGATIONS
    else:
        ctx.problem('proof', 'gen_fourier', None,
                    'regenerated obligation gen_*_ok (sampling index / FFT shift nesting == model) no longer proves: ' + (se or so)[-700:])


FAMILIES = [
    Family('fft_dense', gen_fft, impl_fft, coq_fft, PREAMBLE, cmp_fft, oracle_fft,
           nontrivial=lambda c: any(n >= 2 for n in c['enc']), shard=60, theorem='C03_shift_convention, C03_adjoint_is_conjugate_transpose'),
    Family('fourier_op', gen_fourier, impl_fourier, coq_fourier, PREAMBLE, cmp_fourier, oracle_fourier,
           descr=lambda c: {'kind': c['kind']}, shard=60, theorem='C03_fft_path, C03_crop_case, C03_dispatch_independent'),
]
