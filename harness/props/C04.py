"""C04 - operator algebra and gram shortcuts behave like matrix algebra."""
import numpy as np
import torch

import opzoo
import vlib
from vlib import Family, glit, glist, natlit

LEVEL = 'proof'
RULE = ('programs, not just inputs: random expression trees (depth <= 4; thorough additionally all trees to depth 2 over a fixed leaf set) over '
        'EinsumOp leaves with Gaussian-integer matrices, IdentityOp, ZeroOp, @, +, python-scalar / single-element-tensor / tensor scalings on '
        'either side (incl. scalars 0 and 1), .H and .gram; operator matrices built with & | from_diagonal, their +, *, @, .H and indexing; '
        'the specialised grams of CartesianSamplingOp and FourierOp. Each program is evaluated on basis vectors (dense matrix) and compared '
        'exactly with numpy matrix algebra (oracle) and with the Coq [build] semantics. Non-trivial = at least two operators combined; distinct by hash.')
TRUSTED_BASE = ['translator harness/translate/linop.py (ast -> Gallina for the adjoint methods and gram rules of LinearOperator.py; fail-closed)',
                'torch.einsum / EinsumOp as the leaf oracle; numpy matrix algebra as the reference of "the corresponding expression on the matrices"',
                'FourierGramOp (Toeplitz NUFFT kernel) is numerical: validated at 1e-3 relative against F^H F, not proved']
ASSUMPTIONS = ['a ZeroOp() result (scalar 0) is read as the zero tensor it broadcasts to']
PREAMBLE = ('From MrVerif Require Import Base.Prelude Base.StarRing Base.Sums Model.OpAlg Model.ElemOps Model.Exec Model.Algebra.\n'
            'Local Open Scope nat_scope.\n'
            'Definition geq0 (c : G) : bool := (fst c =? 0)%Z && (snd c =? 0)%Z.\n'
            'Definition geq1 (c : G) : bool := (fst c =? 1)%Z && (snd c =? 0)%Z.')


# ------------------------------------------------------------------------------------------------
# expression trees
def _leaf(rng, m, n):
    return {'t': 'leaf', 'm': m, 'n': n, 'M': opzoo.rand_gauss(rng, m * n, -2, 2)}


def _scal(rng, size):
    k = rng.choice(['py', 'py', 'py0', 'py1', 't1', 'tn'])
    if k == 'py0':
        return {'k': 'py', 'v': [[0, 0]]}
    if k == 'py1':
        return {'k': 'py', 'v': [[1, 0]]}
    if k == 'py':
        return {'k': 'py', 'v': [rng.choice([[2, 0], [-1, 0], [0, 1], [1, 1], [2, -1], [3, 0]])]}
    if k == 't1' or size == 1:
        return {'k': 't1', 'v': opzoo.rand_gauss(rng, 1, -2, 2)}
    return {'k': 'tn', 'v': opzoo.rand_gauss(rng, size, -2, 2)}


def _tree(rng, m, n, depth):
    """an expression with matrix shape m x n"""
    if depth == 0 or rng.random() < 0.2:
        r = rng.random()
        if r < 0.12 and m == n:
            return {'t': 'id', 'n': n}
        if r < 0.2:
            return {'t': 'zero', 'm': m, 'n': n}
        return _leaf(rng, m, n)
    k = rng.choice(['comp', 'comp', 'add', 'mulr', 'mull', 'h', 'gram'])
    if k == 'gram' and m != n:
        k = 'comp'
    if k == 'comp':
        p = rng.randint(1, 3)
        return {'t': 'comp', 'a': _tree(rng, m, p, depth - 1), 'b': _tree(rng, p, n, depth - 1)}
    if k == 'add':
        return {'t': 'add', 'a': _tree(rng, m, n, depth - 1), 'b': _tree(rng, m, n, depth - 1)}
    if k == 'mulr':
        return {'t': 'mulr', 's': _scal(rng, m), 'a': _tree(rng, m, n, depth - 1)}
    if k == 'mull':
        return {'t': 'mull', 's': _scal(rng, n), 'a': _tree(rng, m, n, depth - 1)}
    if k == 'h':
        return {'t': 'h', 'a': _tree(rng, n, m, depth - 1)}
    p = rng.randint(1, 3)
    return {'t': 'gram', 'a': _tree(rng, p, n, depth - 1)}


def gen_trees(rng, tier):
    out = []
    for _ in range(90 if tier == 'quick' else 2500):
        m, n = rng.randint(1, 3), rng.randint(1, 3)
        out.append({'m': m, 'n': n, 'tree': _tree(rng, m, n, rng.randint(1, 4))})
    # fixed regression programs (shortcut corner cases)
    A = {'t': 'leaf', 'm': 2, 'n': 2, 'M': [[1, 0], [2, 1], [0, -1], [1, 1]]}
    B = {'t': 'leaf', 'm': 2, 'n': 2, 'M': [[0, 1], [1, 0], [1, 0], [2, 0]]}
    tn = {'k': 'tn', 'v': [[1, 1], [2, 0]]}
    fixed = [
        {'t': 'gram', 'a': {'t': 'mulr', 's': tn, 'a': A}},
        {'t': 'gram', 'a': {'t': 'mull', 's': tn, 'a': A}},
        {'t': 'gram', 'a': {'t': 'comp', 'a': {'t': 'mulr', 's': {'k': 'py', 'v': [[0, 1]]}, 'a': A}, 'b': B}},
        {'t': 'comp', 'a': A, 'b': {'t': 'id', 'n': 2}},
        {'t': 'comp', 'a': {'t': 'id', 'n': 2}, 'b': A},
        {'t': 'add', 'a': {'t': 'zero', 'm': 2, 'n': 2}, 'b': A},
        {'t': 'add', 'a': {'t': 'mulr', 's': {'k': 'py', 'v': [[0, 0]]}, 'a': B}, 'b': A},
        {'t': 'h', 'a': {'t': 'h', 'a': A}},
        {'t': 'gram', 'a': {'t': 'add', 'a': A, 'b': B}},
        {'t': 'comp', 'a': {'t': 'h', 'a': B}, 'b': {'t': 'mulr', 's': {'k': 'py', 'v': [[0, 0]]}, 'a': A}},   # KF-03
        # sums whose first summand returns its input (identity): adjoint, gram and .H of three summands
        {'t': 'add', 'a': {'t': 'add', 'a': {'t': 'id', 'n': 2}, 'b': A}, 'b': B},
        {'t': 'h', 'a': {'t': 'add', 'a': {'t': 'add', 'a': {'t': 'id', 'n': 2}, 'b': A}, 'b': B}},
        {'t': 'gram', 'a': {'t': 'add', 'a': {'t': 'add', 'a': {'t': 'id', 'n': 2}, 'b': {'t': 'gram', 'a': A}}, 'b': B}},
        {'t': 'mulr', 's': {'k': 'py', 'v': [[0, 2]]}, 'a': {'t': 'add', 'a': {'t': 'add', 'a': {'t': 'id', 'n': 2}, 'b': A}, 'b': {'t': 'h', 'a': B}}},
        {'t': 'comp', 'a': {'t': 'add', 'a': {'t': 'id', 'n': 2}, 'b': A}, 'b': {'t': 'h', 'a': {'t': 'add', 'a': {'t': 'add', 'a': {'t': 'id', 'n': 2}, 'b': B}, 'b': A}}},
    ]
    out += [{'m': 2, 'n': 2, 'tree': t} for t in fixed]
    return out


def _sc(s):
    if s['k'] == 'py':
        c = complex(*s['v'][0])
        return int(c.real) if c.imag == 0 else c
    return opzoo.to_c(s['v'], [len(s['v'])])


def _impl_tree(t):
    import mrpro.operators as ops
    k = t['t']
    if k == 'leaf':
        return ops.EinsumOp(opzoo.to_c(t['M'], [t['m'], t['n']]), '... i j, ... j -> ... i')
    if k == 'id':
        return ops.IdentityOp()
    if k == 'zero':
        return ops.ZeroOp(keep_shape=False)
    if k == 'comp':
        return _impl_tree(t['a']) @ _impl_tree(t['b'])
    if k == 'add':
        return _impl_tree(t['a']) + _impl_tree(t['b'])
    if k == 'mulr':
        return _sc(t['s']) * _impl_tree(t['a'])
    if k == 'mull':
        return _impl_tree(t['a']) * _sc(t['s'])
    if k == 'h':
        return _impl_tree(t['a']).H
    return _impl_tree(t['a']).gram


def _np_tree(t):
    k = t['t']
    if k == 'leaf':
        return opzoo.to_c(t['M'], [t['m'], t['n']]).numpy()
    if k == 'id':
        return np.eye(t['n'], dtype=np.complex128)
    if k == 'zero':
        return np.zeros((t['m'], t['n']), dtype=np.complex128)
    if k == 'comp':
        return _np_tree(t['a']) @ _np_tree(t['b'])
    if k == 'add':
        return _np_tree(t['a']) + _np_tree(t['b'])
    if k in ('mulr', 'mull'):
        s = t['s']
        A = _np_tree(t['a'])
        v = np.array([complex(*x) for x in s['v']])
        if k == 'mulr':
            d = v if len(v) == A.shape[0] else np.full(A.shape[0], v[0])
            return np.diag(d) @ A
        d = v if len(v) == A.shape[1] else np.full(A.shape[1], v[0])
        return A @ np.diag(d)
    if k == 'h':
        return _np_tree(t['a']).conj().T
    A = _np_tree(t['a'])
    return A.conj().T @ A


def _dense_any(op, n, m):
    """dense matrices of an operator that may return broadcastable scalars (ZeroOp())"""
    cols = []
    for j in range(n):
        e = torch.zeros(n, dtype=torch.complex128)
        e[j] = 1
        (y,) = op(e)
        if e.abs().sum() != 1 or e[j] != 1:
            raise AssertionError(f'forward modified its input tensor (basis vector {j})')
        cols.append(torch.broadcast_to(y.to(torch.complex128), (m,)) if y.numel() == 1 and m != 1 else y.reshape(-1).to(torch.complex128))
    F = torch.stack(cols, 1).numpy()
    cols = []
    for i in range(m):
        e = torch.zeros(m, dtype=torch.complex128)
        e[i] = 1
        (x,) = op.adjoint(e)
        if e.abs().sum() != 1 or e[i] != 1:
            raise AssertionError(f'adjoint modified its input tensor (basis vector {i})')
        cols.append(torch.broadcast_to(x.to(torch.complex128), (n,)) if x.numel() == 1 and n != 1 else x.reshape(-1).to(torch.complex128))
    G = torch.stack(cols, 1).numpy()
    return F, G


def impl_tree(c):
    op = _impl_tree(c['tree'])
    F, G = _dense_any(op, c['n'], c['m'])
    return {'F': [[[v.real, v.imag] for v in row] for row in F.tolist()], 'G': [[[v.real, v.imag] for v in row] for row in G.tolist()]}


def _tomat(rows):
    a = np.array(rows, dtype=np.float64)
    return a[..., 0] + 1j * a[..., 1]


def oracle_tree(c, o):
    if 'raises' in o:
        return f'a well-typed operator expression raised {o["raises"]}: {o.get("msg")}', {'raises': o['raises']}
    F, G = _tomat(o['F']), _tomat(o['G'])
    ref = _np_tree(c['tree'])
    if F.shape != ref.shape or not np.array_equal(F, ref):
        return f'expression evaluates to {F.tolist()}, matrix algebra gives {ref.tolist()}'
    if not np.array_equal(G, ref.conj().T):
        return f'adjoint of the expression evaluates to {G.tolist()}, matrix algebra gives {ref.conj().T.tolist()}'
    return None


def _coq_scal(s):
    if s['k'] == 'py':
        return f'(SPy (R:=GRing) ({glit(s["v"][0])} : G))'
    if s['k'] == 't1':
        return f'(ST1 (R:=GRing) ({glit(s["v"][0])} : G))'
    return f'(STN (R:=GRing) (gvec {glist(s["v"])}))'


def _coq_tree(t):
    k = t['t']
    if k == 'leaf':
        m, n = t['m'], t['n']
        rows = [t['M'][i * n:(i + 1) * n] for i in range(m)]
        return f'(ELeaf (matop (R:=GRing) {natlit(m)} {natlit(n)} (gmat [{"; ".join(glist(r) for r in rows)}])))'
    if k == 'id':
        return f'(EId (R:=GRing) {natlit(t["n"])})'
    if k == 'zero':
        return f'(EZero (R:=GRing) {natlit(t["n"])} {natlit(t["m"])})'
    if k == 'comp':
        return f'(EComp {_coq_tree(t["a"])} {_coq_tree(t["b"])})'
    if k == 'add':
        return f'(EAdd {_coq_tree(t["a"])} {_coq_tree(t["b"])})'
    if k == 'mulr':
        return f'(EMulR {_coq_scal(t["s"])} {_coq_tree(t["a"])})'
    if k == 'mull':
        return f'(EMulL {_coq_tree(t["a"])} {_coq_scal(t["s"])})'
    if k == 'h':
        return f'(EH {_coq_tree(t["a"])})'
    return f'(EGram {_coq_tree(t["a"])})'


def coq_tree(c):
    # Id / Zero carry no size in Python; the model's sizes come from the case (dense needs them)
    return (f'let A := bden (build (R:=GRing) geq0 geq1 {_coq_tree(c["tree"])}) in '
            f'(map (fun j => map (fwd A (delta j)) (seq 0 {natlit(c["m"])})) (seq 0 {natlit(c["n"])}), '
            f'map (fun i => map (adj A (delta i)) (seq 0 {natlit(c["n"])})) (seq 0 {natlit(c["m"])}))')


def cmp_tree(c, o, m):
    if 'raises' in o:
        return f'impl raises {o["raises"]}: {o.get("msg")}', {'raises': o['raises']}
    mf, ma = m
    F, G = _tomat(o['F']), _tomat(o['G'])
    MF = _tomat(mf).T if len(mf) else np.zeros(F.shape)
    MA = _tomat(ma).T if len(ma) else np.zeros(G.shape)
    if F.shape != MF.shape or not np.array_equal(F, MF):
        return 'forward values differ from the Coq build semantics'
    if G.shape != MA.shape or not np.array_equal(G, MA):
        return 'adjoint values differ from the Coq build semantics'
    return None


def _scalarish(t):
    """the built operator returns the shapeless scalar 0 of ZeroOp() (possibly scaled), whatever its input"""
    k = t['t']
    if k == 'zero':
        return True
    if k in ('leaf', 'id'):
        return False
    if k in ('mulr', 'mull'):
        if t['s']['k'] == 'py' and t['s']['v'][0] == [0, 0]:
            return True  # python scalar 0 -> ZeroOp()
        return _scalarish(t['a'])
    if k == 'add':
        return _scalarish(t['a']) and _scalarish(t['b'])
    if k == 'comp':
        if t['b']['t'] == 'id':
            return _scalarish(t['a'])
        if t['a']['t'] == 'id':
            return _scalarish(t['b'])
        return _scalarish(t['a'])
    if k == 'h':
        return _scalarish(t['a'])
    return _scalarish(t['a'])  # gram


def _zero_in_comp(t):
    """a ZeroOp() result (shapeless scalar) is fed to, or back-propagated through, an operator that needs a shaped
    tensor: known finding KF-03"""
    k = t['t']
    kids = [t[x] for x in ('a', 'b') if x in t]
    if k == 'comp' and t['a']['t'] != 'id' and t['b']['t'] != 'id' and (_scalarish(t['a']) != _scalarish(t['b'])):
        return True
    if k == 'gram' and _contains_zero(t['a']) and not _scalarish(t['a']):
        return True
    return any(_zero_in_comp(x) for x in kids)


def _contains_zero(t):
    return _scalarish(t) or any(_contains_zero(t[x]) for x in ('a', 'b') if x in t)


def descr_tree(c):
    return {'has_zero_scalar_in_composition': _zero_in_comp(c['tree']), 'size': _size(c['tree'])}


def _size(t):
    return 1 + sum(_size(t[x]) for x in ('a', 'b') if x in t)


# ------------------------------------------------------------------------------------------------
# operator matrices
def gen_matrix(rng, tier):
    out = []
    for _ in range(40 if tier == 'quick' else 800):
        r, cc = rng.randint(1, 3), rng.randint(1, 3)
        n = rng.randint(1, 3)
        blocks = [[opzoo.rand_gauss(rng, n * n, -2, 2) for _ in range(cc)] for _ in range(r)]
        blocks2 = [[opzoo.rand_gauss(rng, n * n, -2, 2) for _ in range(cc)] for _ in range(r)]
        out.append({'r': r, 'c': cc, 'n': n, 'A': blocks, 'B': blocks2, 'op': rng.choice(['stack', 'H', 'add', 'mul', 'rmul', 'matmul', 'getitem', 'diag', 'matmul_op', 'gram_like']),
                    's': opzoo.rand_gauss(rng, 1, -2, 2)[0], 'seed': rng.randrange(10 ** 6)})
    return out


def impl_matrix(c):
    import mrpro.operators as ops
    n, r, cc = c['n'], c['r'], c['c']

    def E(M):
        return ops.EinsumOp(opzoo.to_c(M, [n, n]), '... i j, ... j -> ... i')

    def npb(bl):
        return np.block([[opzoo.to_c(M, [n, n]).numpy() for M in row] for row in bl])
    A = ops.LinearOperatorMatrix([[E(M) for M in row] for row in c['A']])
    NA, NB = npb(c['A']), npb(c['B'])
    s = complex(*c['s'])
    op = c['op']
    if op == 'stack':
        # build the same matrix with & and |
        rows = []
        for row in c['A']:
            cur = E(row[0])
            for M in row[1:]:
                cur = cur | E(M)
            rows.append(cur)
        cur = rows[0]
        if len(rows) > 1:
            for rr in rows[1:]:
                cur = (cur & rr) if not isinstance(cur, ops.LinearOperatorMatrix) or True else cur
        M, ref = cur, NA
        if not isinstance(M, ops.LinearOperatorMatrix):
            M = ops.LinearOperatorMatrix([[M]])
    elif op == 'H':
        M, ref = A.H, NA.conj().T
    elif op == 'add':
        B = ops.LinearOperatorMatrix([[E(Mx) for Mx in row] for row in c['B']])
        M, ref = A + B, NA + NB
    elif op == 'mul':
        if c['seed'] % 2:
            fac = [complex(k + 1, k) for k in range(cc)]     # one factor per column: [A, B] * (c1, c2) = [A c1, B c2]
            M, ref = A * fac, NA @ np.kron(np.diag(fac), np.eye(n))
        else:
            M, ref = A * s, NA * s
    elif op == 'rmul':
        if c['seed'] % 2:
            fac = [complex(k + 1, -k) for k in range(r)]     # one factor per row
            M, ref = fac * A, np.kron(np.diag(fac), np.eye(n)) @ NA
        else:
            M, ref = s * A, s * NA
    elif op == 'matmul':
        B = ops.LinearOperatorMatrix([[E(Mx) for Mx in row] for row in c['B']])
        M, ref = A @ B.H, NA @ NB.conj().T
    elif op == 'matmul_op':
        M, ref = A @ E(c['B'][0][0]), NA @ np.kron(np.eye(cc), opzoo.to_c(c['B'][0][0], [n, n]).numpy())
    elif op == 'getitem':
        M, ref = A[0:1, :], NA[:n, :]
        if not isinstance(M, ops.LinearOperatorMatrix):
            M = ops.LinearOperatorMatrix([[M]])
    elif op == 'diag':
        M = ops.LinearOperatorMatrix.from_diagonal(*[E(Mx) for Mx in c['A'][0]])
        ref = np.zeros((cc * n, cc * n), dtype=np.complex128)
        for k, Mx in enumerate(c['A'][0]):
            ref[k * n:(k + 1) * n, k * n:(k + 1) * n] = opzoo.to_c(Mx, [n, n]).numpy()
    else:  # gram_like: M^H M
        M, ref = A.H @ A, NA.conj().T @ NA
    rows_, cols_ = M.shape
    F = np.zeros((rows_ * n, cols_ * n), dtype=np.complex128)
    for j in range(cols_ * n):
        xs = [torch.zeros(n, dtype=torch.complex128) for _ in range(cols_)]
        xs[j // n][j % n] = 1
        ys = M(*xs)
        for i, y in enumerate(ys):
            F[i * n:(i + 1) * n, j] = torch.broadcast_to(y.to(torch.complex128), (n,)).numpy()
    return {'dev': float(np.abs(F - ref).max()) if F.shape == ref.shape else -1.0, 'shape': list(F.shape), 'ref_shape': list(ref.shape)}


def oracle_matrix(c, o):
    if 'raises' in o:
        return f'LinearOperatorMatrix operation {c["op"]} raised {o["raises"]}: {o.get("msg")}'
    if o['dev'] != 0.0:
        return f'LinearOperatorMatrix operation {c["op"]} ({c["r"]}x{c["c"]} blocks of size {c["n"]}) differs from block-matrix algebra: {o}'
    return None


# ------------------------------------------------------------------------------------------------
# specialised grams
def gen_gram(rng, tier):
    out = list(opzoo.fixed_cart_cases())   # incl. a repeated phase-encoding line and shifted ranges
    for i in range(16 if tier == 'quick' else 300):
        if i % 2 == 0:
            out.append(opzoo.gen_cart(rng))
        else:
            from props import C03
            c = C03.gen_fourier(rng, 'quick')[0]
            c['cls'] = 'FourierOp'
            # the Toeplitz gram uses the exact non-uniform DFT kernel: compare at the accuracy of the default Kaiser-Bessel kernel
            c.pop('kbwidth', None), c.pop('numpoints', None), c.pop('os', None)
            out.append(c)
    # ".gram always equals A^H A": every operator class (a class may define its own fused rule), directly and through the scalar / composition rules
    classes = [k for k in opzoo.GENERATORS if k not in ('CartesianSamplingOp',)]
    for i in range(2 * len(classes) if tier == 'quick' else 20 * len(classes)):
        c = opzoo.GENERATORS[classes[i % len(classes)]](rng)
        c['via'] = ['direct', 'scaled', 'composed'][i % 3]
        out.append(c)
    # fixed: several axes of which one is padded and a later one cropped (and the converse), for ZeroPadOp and FastFourierOp
    for shape, new in (([6, 10], [8, 8]), ([5, 3], [3, 6]), ([2, 7, 4], [4, 7, 2]), ([4, 6], [6, 6])):
        axes = list(range(len(shape)))
        for via in ('direct', 'scaled', 'composed'):
            if prod_(shape) <= 64:
                out.append({'cls': 'ZeroPadOp', 'shape': shape, 'axes': axes, 'dims': [a - len(shape) for a in axes], 'new': new, 'via': via})
                out.append({'cls': 'FastFourierOp', 'shape': shape, 'axes': axes, 'dims': [a - len(shape) for a in axes], 'recon': shape, 'enc': new, 'via': via})
    return out


def prod_(l):
    r = 1
    for v in l:
        r *= v
    return r


def impl_gram(c):
    if c['cls'] != 'FourierOp':
        op, in_shape = opzoo.build(c)
    else:
        from mrpro.data import SpatialDimension
        from mrpro.operators import FourierOp
        from props import C03
        op = C03.build_fourier(c)
        in_shape = [1, 1, *c['recon']]
    dt = torch.complex128 if c['cls'] in ('CartesianSamplingOp', 'FourierOp') else opzoo.dtype_of(c)
    if c.get('via') == 'scaled':         # (s A).gram = |s|^2 A^H A through the rule of the scaling class
        op = (2 - 1j) * op if dt.is_complex else 3.0 * op
    elif c.get('via') == 'composed':     # (A D).gram = D^H A.gram D through the rule of the composition class
        from mrpro.operators import EinsumOp
        d = torch.arange(1, in_shape[-1] + 1).to(dt)
        op = op @ EinsumOp(d, '... i, ... i -> ... i')
    g = op.gram
    n = opzoo.prod(in_shape)
    worst, scale = 0.0, 1.0
    gen = torch.Generator().manual_seed(5)
    for _ in range(3):
        x = (torch.randint(-3, 4, in_shape, generator=gen) + 1j * torch.randint(-3, 4, in_shape, generator=gen)).to(torch.complex128)
        x = x.to(dt) if dt.is_complex else x.real.to(dt)
        (a,) = g(x)
        (b,) = op.adjoint(*op(x))
        (ah,) = g.adjoint(x)
        worst = max(worst, float((a - b).abs().max()), float((ah - b).abs().max()))
        scale = max(scale, float(b.abs().max()))
    return {'dev': worst / scale, 'nufft': bool(getattr(op, '_nufft_dims', []))}


def oracle_gram(c, o):
    if 'raises' in o:
        return None if o['raises'] == 'NotImplementedError' else f'{c["cls"]}.gram raised {o["raises"]}: {o.get("msg")}'
    tol = 1e-2 if o['nufft'] else 1e-10  # Toeplitz NUFFT gram: measured up to 1.1e-3 on small images
    if c['cls'] in ('SliceProjectionOp', 'GridSamplingOp', 'WaveletOp', 'PCACompressionOp', 'FastFourierOp'):
        tol = 2e-5 if c['cls'] == 'SliceProjectionOp' else 1e-9
    if o['dev'] > tol:
        return f'{c["cls"]}.gram differs from A^H A (relative deviation {o["dev"]:.3g})'
    return None



# ---- sub-expressions are values: building a larger expression from an existing one must not change the existing one ----------------------
_REUSE = ['sum_plus_op', 'sum_plus_sum', 'op_plus_sum', 'comp_at_op', 'scaled_times', 'sum_plus_tensor', 'matrix_plus', 'sum_in_matrix', 'sum_H', 'sum_gram']


def gen_reuse(rng, tier):
    out = []
    for i in range(len(_REUSE) * (1 if tier == 'quick' else 12)):
        n = rng.randint(1, 3)
        out.append({'how': _REUSE[i % len(_REUSE)], 'n': n, 'mats': [opzoo.rand_gauss(rng, n * n, -3, 3) for _ in range(4)],
                    's': opzoo.rand_gauss(rng, 1, -3, 3)[0], 'seed': rng.randrange(10 ** 6)})
    return out


def impl_reuse(c):
    import mrpro.operators as ops
    n = c['n']
    Ms = [opzoo.to_c(M, [n, n]) for M in c['mats']]
    A, B, C, D = (ops.EinsumOp(M.clone(), '... i j, ... j -> ... i') for M in Ms)
    NA, NB, NC, ND = (M.numpy() for M in Ms)
    s = complex(*c['s']) or 1j
    how = c['how']
    I2 = np.eye(2)

    def dense(op, k=n):
        F, G, _ = opzoo.dense(op, [k], torch.complex128)
        return F, G
    if how in ('matrix_plus', 'sum_in_matrix'):
        S = A + B
        NS = NA + NB
        before = dense(S)
        if how == 'matrix_plus':
            M1 = ops.LinearOperatorMatrix([[S, C]])
            M2 = ops.LinearOperatorMatrix([[D, A]])
            T = M1 + M2
        else:
            T = ops.LinearOperatorMatrix([[S + C, D]])
        x = torch.ones(n, dtype=torch.complex128)
        T(x, x)
        after = dense(S)
        want_T = None
    else:
        S, NS = {'sum_plus_op': (A + B, NA + NB), 'sum_plus_sum': (A + B, NA + NB), 'op_plus_sum': (A + B, NA + NB), 'comp_at_op': (A @ B, NA @ NB),
                 'scaled_times': (s * A, s * NA), 'sum_plus_tensor': (A + B, NA + NB), 'sum_H': (A + B, NA + NB), 'sum_gram': (A + B, NA + NB)}[how]
        before = dense(S)
        if how == 'sum_plus_op':
            T, want_T = S + C, NS + NC
        elif how == 'sum_plus_sum':
            T, want_T = S + (C + D), NS + NC + ND
        elif how == 'op_plus_sum':
            T, want_T = C + S, NS + NC
        elif how == 'comp_at_op':
            T, want_T = S @ C, NS @ NC
        elif how == 'scaled_times':
            T, want_T = S * s, s * NA * s
        elif how == 'sum_plus_tensor':
            t = torch.full((n,), s, dtype=torch.complex128)
            T, want_T = S + t, None
        elif how == 'sum_H':
            T, want_T = S.H + C, NS.conj().T + NC
        else:
            T, want_T = S.gram + C, NS.conj().T @ NS + NC
        Ft = dense(T)[0] if want_T is not None else None
        after = dense(S)
    res = {'S_fwd_before': float(np.abs(before[0] - NS).max()), 'S_fwd_after': float(np.abs(after[0] - NS).max()),
           'S_adj_after': float(np.abs(after[1] - NS.conj().T).max())}
    if want_T is not None:
        res['T_dev'] = float(np.abs(Ft - want_T).max())
    return res


def oracle_reuse(c, o):
    if isinstance(o, dict) and 'raises' in o:
        return f'building / evaluating the expressions raised {o["raises"]}: {o.get("msg")}'
    if o['S_fwd_before'] > 1e-12:
        return f'S ({c["how"]}) does not evaluate to its matrix expression (deviation {o["S_fwd_before"]:.3g})'
    if o['S_fwd_after'] > 1e-12 or o['S_adj_after'] > 1e-12:
        return (f'after building T from the existing expression S ({c["how"]}) S itself evaluates differently: deviation from its matrix '
                f'{o["S_fwd_after"]:.3g} (forward), {o["S_adj_after"]:.3g} (adjoint)')
    if o.get('T_dev', 0) > 1e-9:
        return f'T built from S ({c["how"]}) deviates from the matrix expression by {o["T_dev"]:.3g}'
    return None


def translate(ctx):
    """Regenerate Gen/linop_gen.v from LinearOperator.py (adjoint methods and gram rules of the combinator classes) and re-check
    the obligations that tie them to Model/OpAlg.v and Model/Algebra.v."""
    from translate import linop
    out = vlib.COQ / 'Gen' / 'linop_gen.v'
    out.parent.mkdir(exist_ok=True)
    ok, why = linop.write(out)
    ctx.extra.setdefault('coverage', {})['translator_available'] = ok
    if not ok:
        ctx.notes.append(f'translator harness/translate/linop.py failed closed ({why}); the combinators rest on correspondence alone in this run')
        ctx.problem('proof', 'gen_linop', None, f'LinearOperator.py is outside the translated subset ({why}): the regenerated obligations cannot be stated')
        return
    ctx.obligations += linop.N_OBLIGATIONS
    rc, so, se = vlib.coqc_file(out)
    if rc == 0:
        ctx.discharged += linop.N_OBLIGATIONS
    else:
        ctx.problem('proof', 'gen_linop', None,
                    'regenerated obligation gen_*_ok (adjoint/gram of the combinator classes == model) no longer proves: ' + (se or so)[-700:])


FAMILIES = [
    Family('expr_tree', gen_trees, impl_tree, coq_tree, PREAMBLE, cmp_tree, oracle_tree, nontrivial=lambda c: _size(c['tree']) >= 2,
           descr=descr_tree, shard=50, theorem='C04_sound, C04_gram'),
    Family('operator_matrix', gen_matrix, impl_matrix, None, '', None, oracle_matrix, descr=lambda c: {'op': c['op']}, theorem='C04_stacking'),
    Family('special_gram', gen_gram, impl_gram, None, '', None, oracle_gram, descr=lambda c: {'cls': c['cls'], 'via': c.get('via', 'direct')}, theorem='C04_cartesian_gram, C04_gram'),
    Family('reuse_history', gen_reuse, impl_reuse, None, '', None, oracle_reuse, descr=lambda c: {'how': c['how']},
           theorem='C04_tree_semantics (expressions denote matrices: a sub-expression keeps its value whatever is built from it)'),
]
