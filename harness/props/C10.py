"""C10 - calls are pure: arguments, operators and source objects are never mutated; results depend only on the arguments.

Dynamic monitor.  A *case* is a seeded call history on one real mrpro object:

    {'target': <builder name>, 'seed': int, 'dtype': 'c64'|'c128'|'f32'|'f64', 'cfg': {...builder configuration...},
     'history': [{'call': 'forward'|'adjoint'|'gram'|'prox'|..., 'arg': {'kind': 'plain'|'view'|'expanded'|'noncontig',
                  'seed': int, ...}}, ...]}

`impl(case)` builds the object (every constructor tensor / data object is *caller owned* and registered), and for every
call of the history
  (a) snapshots all caller-owned tensors seen so far (values, Tensor._version, requires_grad, .grad) and, structurally,
      the object under test (parameters, buffers, every tensor / plain attribute reachable from vars()) and all
      caller-owned data objects (KData, KHeader, KTrajectory, SpatialDimension, ...),
  (b) executes the call, re-snapshots and compares,
  (c) executes the same call on a freshly built instance (same builder, same seed) with freshly created equal
      arguments and compares the two results,
  (d) counts outputs that share storage with caller-owned tensors (allowed; recorded only).
Failing histories are shrunk greedily inside impl.  The oracle reports the first problem of the shrunk history.
"""
from __future__ import annotations

import copy
import dataclasses
import enum
import math
import pickle
import random
import sys
import warnings

import torch

import vlib
from vlib import Family

LEVEL = 'proof'
RULE = ('Seeded call histories (quick: length 3-8, thorough: up to 15) on real mrpro objects built in memory: linear operators '
        '(EinsumOp, FastFourierOp, FourierOp Cartesian/radial, CartesianSamplingOp, ZeroPadOp, FiniteDifferenceOp, WaveletOp, '
        'SensitivityOp, DensityCompensationOp, GridSamplingOp, SliceProjectionOp, PCACompressionOp, IdentityOp, RearrangeOp and '
        'scalar/tensor multiples, sums, compositions, adjoints, gram), non-linear operators and signal models, functionals '
        '(forward/prox/prox_convex_conj with python / 0-dim / 1-element / broadcastable / expanded / tiny sigma), optimisers '
        '(cg, adam, lbfgs), reconstructions, KData transformations, trajectory calculators, dcf, prewhitening, csm. Arguments '
        'are plain, sliced/transposed views of a larger base, or expanded (stride 0) tensors of interleaved shapes and dtypes. '
        'After every call: all caller-owned tensors (values, _version, requires_grad, grad), the state of the object under '
        'test and all caller-owned data objects are compared with a snapshot taken before the call, and the result is compared '
        'with the result of the same call on a freshly built instance. Non-trivial = history of >= 2 calls with two different '
        'calls or argument kinds; distinct by case hash. A harness crash ({"raises": ...}) is not a finding and is counted '
        'under impl_raises in input_distribution (expected: 0).')
TRUSTED_BASE = ['dynamic monitor harness/props/C10.py: snapshot/compare of tensors (values, Tensor._version), module state and data objects',
                'torch.Tensor._version as the witness of in-place writes; untyped_storage().data_ptr() for aliasing',
                'translator harness/translate/effects.py (ast inventory of in-place write sites; fail-closed)']
ASSUMPTIONS = ['CPU execution; deterministic kernels up to reduction order (results compared exactly, then with rtol 1e-6 / 1e-12)',
               'an in-place write to a tensor bumps Tensor._version (PyTorch semantics)']

_BAD_SITES: list = []


# ------------------------------------------------------------------------------------------------
# >>> translate: filled / owned by the coordinator (static effect inventory, Coq tie) <<<
# ------------------------------------------------------------------------------------------------
def translate(ctx):
    """Regenerate Gen/effects_gen.v (inventory of in-place write sites of src/mrpro) and re-check its obligations."""
    global _BAD_SITES
    try:
        from translate import effects
    except Exception as e:  # noqa: BLE001  (translator not available yet)
        ctx.notes.append(f'effects translator not available ({e!r}); C10 rests on the dynamic monitor alone in this run')
        return
    out = vlib.COQ / 'Gen' / 'effects_gen.v'
    out.parent.mkdir(exist_ok=True)
    ok, why, info = effects.write(out)
    ctx.extra.setdefault('coverage', {})['translator_available'] = ok
    if not ok:
        ctx.notes.append(f'effects translator failed closed ({why}); C10 rests on the dynamic monitor alone in this run')
        return
    _BAD_SITES = list((info or {}).get('bad_sites', []))
    ctx.obligations += 2
    rc, so, se = vlib.coqc_file(out)
    if rc == 0:
        ctx.discharged += 2
    elif _BAD_SITES:
        for site in _BAD_SITES[:5]:
            ctx.problem('proof', 'effects_inventory', None,
                        f'in-place write on a non-fresh object not on the allow-list: {site}')
    else:
        ctx.problem('proof', 'effects_inventory', None,
                    'regenerated effect-inventory obligations no longer prove: ' + (se or so)[-600:])


def search(ctx, broken):
    """When only the static inventory broke: run the thorough generators of the families whose targets touch the
    offending files, looking for a dynamic witness."""
    if not _BAD_SITES:
        return
    text = ' '.join(str(s) for s in _BAD_SITES).lower()
    rng = random.Random(ctx.seed + 1)
    for fam in FAMILIES:
        cases = fam.gen(rng, 'quick')
        hot = [c for c in cases if c['target'].split(':')[0].lower() in text] or cases[: max(10, len(cases) // 4)]
        ctx.run_family(fam, hot[:150])
        if any(p['kind'] == 'property' for p in ctx.problems):
            return


# ------------------------------------------------------------------------------------------------
# dtypes, argument tensors
# ------------------------------------------------------------------------------------------------
DT = {'c64': torch.complex64, 'c128': torch.complex128, 'f32': torch.float32, 'f64': torch.float64,
      'i64': torch.int64}
REAL_OF = {'c64': 'f32', 'c128': 'f64', 'f32': 'f32', 'f64': 'f64'}
CPLX_OF = {'c64': 'c64', 'c128': 'c128', 'f32': 'c64', 'f64': 'c128'}
KINDS = ('plain', 'view', 'expanded', 'noncontig')


def _rnd(shape, dt, g, lo=-8, hi=8, scale=0.25):
    """Small dyadic values (exact in float32)."""
    dtype = DT[dt]
    shape = list(shape)
    re = torch.randint(lo, hi + 1, shape, generator=g).to(torch.float64) * scale
    if dtype.is_complex:
        im = torch.randint(lo, hi + 1, shape, generator=g).to(torch.float64) * scale
        return torch.complex(re, im).to(dtype)
    return re.to(dtype)


class Registry:
    """Everything the *caller* owns: tensors (incl. bases of views) and data objects."""

    def __init__(self):
        self.tensors: list[tuple[str, torch.Tensor]] = []
        self.objects: list[tuple[str, object]] = []
        self._ids: set[int] = set()

    def own(self, name, x):
        if x is None:
            return x
        if isinstance(x, torch.Tensor):
            if id(x) not in self._ids:
                self._ids.add(id(x))
                self.tensors.append((name, x))
        else:
            if id(x) not in self._ids:
                self._ids.add(id(x))
                self.objects.append((name, x))
        return x

    def storages(self):
        s = set()
        for _, t in self.tensors:
            try:
                s.add(t.untyped_storage().data_ptr())
            except Exception:  # noqa: BLE001
                pass
        for _, o in self.objects:
            for leaf in snap(o).values():
                if leaf[0] == 'T' and leaf[5] is not None:
                    s.add(leaf[5])
        s.discard(0)
        return s


def make_tensor(spec, own, name):
    """Create a caller-owned argument tensor from a JSON spec {'shape', 'dtype', 'kind', 'seed', lo?, hi?, scale?}."""
    shape = [int(s) for s in spec['shape']]
    dt, kind = spec['dtype'], spec.get('kind', 'plain')
    g = torch.Generator().manual_seed(int(spec['seed']))
    kw = {k: spec[k] for k in ('lo', 'hi', 'scale') if k in spec}
    nd = len(shape)
    if kind == 'view':
        if nd == 0:
            base = _rnd([3], dt, g, **kw)
            x = base[1]
        else:
            big = list(shape)
            big[-1] += 2
            big[0] += 1 if nd > 1 else 0
            base = _rnd(big, dt, g, **kw)
            idx = [slice(None)] * nd
            idx[-1] = slice(1, 1 + shape[-1])
            if nd > 1:
                idx[0] = slice(1, None)
            x = base[tuple(idx)]
        own(name + '.base', base)
    elif kind == 'noncontig' and nd >= 1:
        if nd >= 2:
            sw = list(shape)
            sw[-1], sw[-2] = sw[-2], sw[-1]
            base = _rnd(sw, dt, g, **kw)
            x = base.transpose(-1, -2)
        else:
            base = _rnd([2 * shape[0]], dt, g, **kw)
            x = base[::2]
        own(name + '.base', base)
    elif kind == 'expanded' and nd >= 1 and any(s > 1 for s in shape):
        a = next(i for i, s in enumerate(shape) if s > 1)
        one = list(shape)
        one[a] = 1
        base = _rnd(one, dt, g, **kw)
        x = base.expand(shape)
        own(name + '.base', base)
    else:
        x = _rnd(shape, dt, g, **kw)
    return own(name, x)


def tspec(rng, shape, dt, kinds=KINDS, **kw):
    d = {'shape': list(shape), 'dtype': dt, 'kind': rng.choice(kinds), 'seed': rng.randrange(10 ** 6)}
    d.update(kw)
    return d


# ------------------------------------------------------------------------------------------------
# structural snapshots
# ------------------------------------------------------------------------------------------------
_PRIM = (bool, int, float, complex, str, bytes, type(None), enum.Enum, torch.dtype, torch.device, torch.Size, slice,
         type(Ellipsis))
_SKIP_ATTRS = {'_backward_pre_hooks', '_backward_hooks', '_forward_hooks', '_forward_hooks_with_kwargs',
               '_forward_hooks_always_called', '_forward_pre_hooks', '_forward_pre_hooks_with_kwargs', '_state_dict_hooks',
               '_state_dict_pre_hooks', '_load_state_dict_pre_hooks', '_load_state_dict_post_hooks', '_is_full_backward_hook'}


def _tleaf(t: torch.Tensor):
    try:
        ptr = t.untyped_storage().data_ptr()
    except Exception:  # noqa: BLE001
        ptr = None
    try:
        val = t.detach()
        val = val.to_dense().clone() if val.layout != torch.strided else val.clone()
    except Exception:  # noqa: BLE001
        val = None
    return ('T', val, t._version, bool(t.requires_grad), t.grad is None, ptr, tuple(t.shape), str(t.dtype))


def snap(obj, out=None, path='', memo=None, depth=0):
    """Flat {path: leaf} description of everything reachable from obj.  Leaves: ('T', clone, version, requires_grad,
    grad_is_none, storage_ptr, shape, dtype) for tensors, ('P', repr) for plain values, ('R', path) for repeated
    references, ('O', typename) for opaque objects (functions, generators, ...)."""
    if out is None:
        out, memo = {}, {}
    if isinstance(obj, torch.Tensor):
        out[path] = _tleaf(obj)
        return out
    if isinstance(obj, _PRIM):
        out[path] = ('P', repr(obj))
        return out
    if id(obj) in memo:
        out[path] = ('R', memo[id(obj)])
        return out
    if depth > 12:
        out[path] = ('O', type(obj).__name__)
        return out
    memo[id(obj)] = path
    if isinstance(obj, dict):
        out[path + '#len'] = ('P', str(len(obj)))
        for k, v in obj.items():
            snap(v, out, f'{path}[{k!r}]', memo, depth + 1)
    elif isinstance(obj, (list, tuple)):
        out[path + '#len'] = ('P', str(len(obj)))
        for i, v in enumerate(obj):
            snap(v, out, f'{path}[{i}]', memo, depth + 1)
    elif isinstance(obj, (set, frozenset)):
        out[path] = ('P', repr(sorted(repr(v) for v in obj)))
    elif type(obj).__module__.startswith('numpy'):
        try:
            out[path] = ('P', repr(obj.tolist()) + str(getattr(obj, 'dtype', '')))
        except Exception:  # noqa: BLE001
            out[path] = ('O', type(obj).__name__)
    elif callable(obj) and not isinstance(obj, torch.nn.Module) and not dataclasses.is_dataclass(obj) \
            and not hasattr(obj, '__dict__') and not hasattr(obj, '__slots__'):
        out[path] = ('O', getattr(obj, '__qualname__', type(obj).__name__))
    elif isinstance(obj, (type, torch.Generator)) or type(obj).__name__ in ('function', 'builtin_function_or_method', 'method',
                                                                            'partial'):
        out[path] = ('O', getattr(obj, '__qualname__', type(obj).__name__))
    else:
        names = []
        if hasattr(obj, '__dict__'):
            names += list(vars(obj))
        for klass in type(obj).__mro__:
            sl = klass.__dict__.get('__slots__', ())
            names += [sl] if isinstance(sl, str) else list(sl)
        seen = set()
        found = False
        for n in names:
            if n in seen or n in _SKIP_ATTRS or n in ('__dict__', '__weakref__'):
                continue
            seen.add(n)
            try:
                v = getattr(obj, n) if not (hasattr(obj, '__dict__') and n in vars(obj)) else vars(obj)[n]
            except AttributeError:
                continue
            found = True
            snap(v, out, f'{path}.{n}', memo, depth + 1)
        out[path + '#type'] = ('P', type(obj).__name__)
        if not found:
            try:
                out[path] = ('P', repr(pickle.dumps(obj))[:2000])
            except Exception:  # noqa: BLE001
                out[path] = ('O', type(obj).__name__)
    return out


def teq(a: torch.Tensor | None, b: torch.Tensor | None) -> bool:
    """NaN-aware exact equality of values, shape and dtype."""
    if a is None or b is None:
        return a is b
    if a.shape != b.shape or a.dtype != b.dtype:
        return False
    if a.numel() == 0:
        return True
    if torch.equal(a, b):
        return True
    if a.dtype.is_floating_point or a.dtype.is_complex:
        return bool(((a == b) | ((a != a) & (b != b))).all())
    return False


def tclose(a: torch.Tensor, b: torch.Tensor) -> bool:
    """Equality of results up to reduction-order rounding."""
    if teq(a, b):
        return True
    if a.shape != b.shape or a.dtype != b.dtype:
        return False
    if not (a.dtype.is_floating_point or a.dtype.is_complex):
        return False
    single = a.dtype in (torch.float32, torch.complex64, torch.float16, torch.bfloat16)
    rtol = 1e-6 if single else 1e-12
    scale = float(a.abs().max()) if a.numel() and bool(torch.isfinite(a.abs()).all()) else 1.0
    return bool(torch.allclose(a, b, rtol=rtol * 8, atol=rtol * 8 * max(scale, 1e-30), equal_nan=True))


def diff_snap(before: dict, after: dict, versions: bool, allow_new: bool):
    """First difference between two snapshots of the same object (None if identical)."""
    for p, lb in before.items():
        la = after.get(p)
        if la is None:
            return 'removed', f'{p or "<self>"} disappeared'
        if lb[0] != la[0]:
            return 'value', f'{p or "<self>"}: {lb[0]} became {la[0]}'
        if lb[0] == 'T':
            if lb[6] != la[6] or lb[7] != la[7]:
                return 'value', f'{p or "<self>"}: shape/dtype {lb[6]} {lb[7]} -> {la[6]} {la[7]}'
            if not teq(lb[1], la[1]):
                return 'value', f'{p or "<self>"}: tensor values changed{_where(lb[1], la[1])}'
            if lb[3] != la[3] or lb[4] != la[4]:
                return 'value', f'{p or "<self>"}: requires_grad/grad changed ({lb[3]},{lb[4]})->({la[3]},{la[4]})'
            if versions and lb[2] != la[2]:
                return 'version', f'{p or "<self>"}: _version {lb[2]} -> {la[2]} (in-place write)'
        elif lb[1] != la[1]:
            return 'value', f'{p or "<self>"}: {str(lb[1])[:60]} -> {str(la[1])[:60]}'
    if not allow_new:
        for p in after:
            if p not in before:
                return 'added', f'{p} appeared'
    else:
        for p in after:
            if p not in before and ('._buffers[' in p or '._parameters[' in p):
                return 'added', f'{p} appeared'
    return None


def _where(a, b):
    try:
        d = (a != b) & ~((a != a) & (b != b))
        i = d.flatten().nonzero()[0].item()
        return f' (first at flat index {i}: {a.flatten()[i].item()} -> {b.flatten()[i].item()}, {int(d.sum())} of {d.numel()} elements)'
    except Exception:  # noqa: BLE001
        return ''


def result_leaves(res):
    """Flatten a result (tensors, tuples, data objects) into comparable leaves."""
    return snap(res)


def compare_results(r1, r2):
    """None if the two results agree, else a short description."""
    l1, l2 = result_leaves(r1), result_leaves(r2)
    if set(l1) != set(l2):
        odd = sorted(set(l1) ^ set(l2))[:3]
        return f'result structure differs at {odd}'
    for p, a in l1.items():
        b = l2[p]
        if a[0] != b[0]:
            return f'result{p}: kind {a[0]} vs {b[0]}'
        if a[0] == 'T':
            if a[6] != b[6] or a[7] != b[7]:
                return f'result{p}: shape/dtype {a[6]} {a[7]} vs fresh {b[6]} {b[7]}'
            if not tclose(a[1], b[1]):
                err = float((a[1].to(torch.complex128) - b[1].to(torch.complex128)).abs().max()) if a[1].numel() else 0.0
                return f'result{p}: values differ from a fresh instance (max abs diff {err:.3g}, scale {float(a[1].abs().max()):.3g})'
        elif a[0] == 'P' and a[1] != b[1]:
            return f'result{p}: {str(a[1])[:50]} vs fresh {str(b[1])[:50]}'
    return None


# ------------------------------------------------------------------------------------------------
# the monitor
# ------------------------------------------------------------------------------------------------
class Target:
    """One kind of object under test.

    cfg(rng, dt) -> JSON configuration of the builder;  build(case, own) -> ctx dict with at least 'watch' (objects whose
    state must not change);  gen_call(rng, cfg, dt, tier) -> call dict;  run(ctx, call, own, tag) -> result."""

    def __init__(self, name, cfg, build, gen_call, run, weight=1.0, max_len=None):
        self.name, self.cfg, self.build, self.gen_call, self.run = name, cfg, build, gen_call, run
        self.weight, self.max_len = weight, max_len


TARGETS: dict[str, Target] = {}


def _exec(tgt, ctx, call, reg, tag):
    try:
        with warnings.catch_warnings():
            warnings.simplefilter('ignore')
            return tgt.run(ctx, call, reg.own, tag), None
    except Exception as e:  # noqa: BLE001
        return None, f'{vlib.exc_enum(e)}: {str(e)[:100]}'


def _build(tgt, case, reg):
    with warnings.catch_warnings():
        warnings.simplefilter('ignore')
        return tgt.build(case, reg.own)


def run_history(case, history, fresh_check=True):
    tgt = TARGETS[case['target']]
    reg = Registry()
    ctx = _build(tgt, case, reg)
    problems, skipped, notes = [], [], []
    shared = 0
    earlier = []  # (step, call, leaves of earlier results)

    def add(i, call, what, detail):
        problems.append({'step': i, 'call': call['call'], 'what': what, 'detail': detail[:300]})

    for i, call in enumerate(history):
        tag = f'c{i}'
        n_before = len(reg.tensors)
        # arguments are created by the target's run(); to snapshot them *before* the call the run functions are
        # split in two phases through ctx['_prepare']: run(..) is called with a hook that fires after argument creation.
        state = {}

        def hook():
            state['t'] = [(n, _tleaf(t)) for n, t in reg.tensors]
            state['o'] = [(n, snap(o)) for n, o in reg.objects]
            state['w'] = snap(ctx['watch'])
            state['e'] = [(s, c, snap(r)) for s, c, r in earlier]

        ctx['_hook'] = hook
        res, exc = _exec(tgt, ctx, call, reg, tag)
        if 't' not in state:
            # the call failed while building its arguments: harness-side, not an observation
            skipped.append(f'step {i} {call["call"]}: arguments could not be built: {exc}')
            continue
        # (a) caller-owned tensors
        for (n, lb), (_, t) in zip(state['t'], reg.tensors):
            la = _tleaf(t)
            if not teq(lb[1], la[1]):
                add(i, call, 'arg_mutated', f'{n}: values changed{_where(lb[1], la[1])}')
            elif lb[3] != la[3] or lb[4] != la[4]:
                add(i, call, 'arg_mutated', f'{n}: requires_grad/grad changed ({lb[3]}, grad None {lb[4]}) -> ({la[3]}, grad None {la[4]})')
            elif lb[2] != la[2]:
                add(i, call, 'version_bumped', f'{n}: _version {lb[2]} -> {la[2]} with equal values (in-place write)')
        # (b) caller-owned data objects and the object under test
        for (n, sb), (_, o) in zip(state['o'], reg.objects):
            d = diff_snap(sb, snap(o), versions=True, allow_new=False)
            if d:
                add(i, call, 'source_object_changed', f'{n}{d[1]}')
        d = diff_snap(state['w'], snap(ctx['watch']), versions=False, allow_new=True)
        if d:
            add(i, call, 'module_state_changed', d[1])
        else:
            dv = diff_snap(state['w'], snap(ctx['watch']), versions=True, allow_new=True)
            if dv:
                notes.append(f'step {i} {call["call"]}: {dv[1]} (values equal; not counted)')
        for (s, c, sb), (_, _, r) in zip(state['e'], earlier):
            d = diff_snap(sb, snap(r), versions=False, allow_new=True)
            if d:
                add(i, call, 'history_dependent', f'the result returned by step {s} ({c}) was changed by this call: {d[1]}')
        # (c) same call on a fresh instance
        if exc is not None:
            skipped.append(f'step {i} {call["call"]}: {exc}')
        if fresh_check and (i > 0 or exc is not None):
            reg2 = Registry()
            try:
                ctx2 = _build(tgt, case, reg2)
                ctx2['_hook'] = lambda: None
                res2, exc2 = _exec(tgt, ctx2, call, reg2, tag)
            except Exception as e:  # noqa: BLE001
                res2, exc2 = None, f'fresh build failed: {e!r}'
            if (exc is None) != (exc2 is None):
                add(i, call, 'history_dependent', f'after this history: {exc or "returns"}; fresh instance: {exc2 or "returns"}')
            elif exc is None:
                msg = compare_results(res, res2)
                if msg:
                    add(i, call, 'history_dependent', msg)
            elif exc.split(':')[0] != exc2.split(':')[0]:
                add(i, call, 'history_dependent', f'raises {exc} after this history but {exc2} on a fresh instance')
        # (d) aliasing of outputs with caller-owned storage (allowed, recorded)
        if res is not None:
            st = reg.storages()
            for leaf in snap(res).values():
                if leaf[0] == 'T' and leaf[5] in st:
                    shared += 1
            earlier.append((i, call['call'], res))
            if len(earlier) > 3:
                earlier.pop(0)
        del n_before
    return {'problems': problems, 'skipped': skipped, 'notes': notes[:5], 'shared_outputs': shared, 'n_calls': len(history)}


def impl(case):
    obs = run_history(case, case['history'])
    obs['shrunk_history'] = []
    if obs['problems']:
        want = obs['problems'][0]['what']
        hist = list(case['history'])
        first = obs['problems'][0]
        runs = 0
        i = len(hist) - 1
        while i >= 0 and runs < 25 and len(hist) > 1:
            cand = hist[:i] + hist[i + 1:]
            runs += 1
            try:
                o2 = run_history(case, cand)
            except Exception:  # noqa: BLE001
                o2 = {'problems': []}
            hit = [p for p in o2['problems'] if p['what'] == want]
            if hit:
                hist, first = cand, hit[0]
            i -= 1
            i = min(i, len(hist) - 1)
        obs['shrunk_history'] = hist
        obs['shrunk_problem'] = first
    obs['problems'] = obs['problems'][:6]
    obs['skipped'] = obs['skipped'][:6]
    return obs


def oracle(case, obs):
    if not isinstance(obs, dict) or 'raises' in obs or 'problems' not in obs:
        return None  # harness crash: not a finding of the property (counted as impl_raises)
    if not obs['problems']:
        return None
    p = obs.get('shrunk_problem') or obs['problems'][0]
    hist = obs.get('shrunk_history') or case['history']
    hs = ' ; '.join(_call_str(c) for c in hist)
    return (f'{case["target"]} [{case["dtype"]}]: {p["what"]} at step {p["step"]} ({p["call"]}) of the history [{hs}]: '
            f'{p["detail"]}')[:900]


def _call_str(c):
    a = c.get('arg') or {}
    bits = [c['call']]
    for k in ('kind', 'dtype', 'batch', 'sigma', 'init'):
        if k in a:
            bits.append(f'{k}={a[k] if not isinstance(a[k], dict) else a[k].get("form", a[k].get("kind"))}')
    return '(' + ' '.join(str(b) for b in bits) + ')'


def descr(case):
    kinds = set()
    for c in case['history']:
        a = c.get('arg') or {}
        for v in [a] + [x for x in a.values() if isinstance(x, dict)]:
            if 'kind' in v:
                kinds.add(v['kind'])
            if 'form' in v:
                kinds.add('sigma:' + v['form'])
    return {'target': case['target'], 'object': case['target'].split(':')[0], 'dtype': case['dtype'],
            'calls': sorted({c['call'] for c in case['history']}), 'arg_kinds': sorted(kinds),
            'cfg': case.get('cfg', {})}


def nontrivial(case):
    h = case['history']
    if len(h) < 2:
        return False
    sig = {(c['call'], json_key(c.get('arg', {}).get('kind')), json_key(c.get('arg', {}).get('dtype'))) for c in h}
    return len(sig) >= 2


def json_key(x):
    return x if isinstance(x, (str, int, float, type(None))) else repr(x)


def gen_for(names, quick_n, thorough_n):
    def gen(rng, tier):
        n = quick_n if tier == 'quick' else thorough_n
        tg = [TARGETS[k] for k in names if k in TARGETS]
        weights = [t.weight for t in tg]
        cases = []
        for k in range(n):
            t = tg[k] if k < len(tg) else rng.choices(tg, weights)[0]  # every target at least once
            dt = rng.choice(['c64', 'c64', 'c128', 'f32', 'f64'])
            cfg = t.cfg(rng, dt)
            dt = cfg.pop('_dtype', dt)
            hi = 8 if tier == 'quick' else 15
            ln = rng.randint(3, hi)
            if t.max_len:
                ln = min(ln, t.max_len if tier == 'quick' else 2 * t.max_len)
            case = {'target': t.name, 'seed': rng.randrange(10 ** 6), 'dtype': dt, 'cfg': cfg, 'history': []}
            case['history'] = [t.gen_call(rng, cfg, dt, tier) for _ in range(ln)]
            cases.append(case)
        return cases
    return gen


def _fire(ctx):
    ctx['_hook']()


# ------------------------------------------------------------------------------------------------
# in-memory KData (header with AcqInfo from ismrmrd acquisitions created in memory; nothing is read from disk)
# ------------------------------------------------------------------------------------------------
def make_kdata(cfg, seed, own, name='kdata', dt='c64', traj='cartesian'):
    import ismrmrd
    from mrpro.data import AcqInfo, EncodingLimits, KData, KHeader, KTrajectory, SpatialDimension
    from mrpro.data.AcqInfo import rearrange_acq_info_fields
    from mrpro.data.EncodingLimits import Limits
    from mrpro.data.traj_calculators import KTrajectoryCartesian
    no, nc, n2, n1, n0 = cfg['n_other'], cfg['n_coils'], cfg['n_k2'], cfg['n_k1'], cfg['n_k0']
    g = torch.Generator().manual_seed(seed + 3)
    acqs, sc = [], 0
    for o in range(no):
        for k2 in range(n2):
            for k1 in range(n1):
                a = ismrmrd.Acquisition()
                a.resize(n0, nc, trajectory_dimensions=2)
                a.idx.kspace_encode_step_1 = k1
                a.idx.kspace_encode_step_2 = k2
                a.idx.repetition = o
                a.scan_counter = sc
                sc += 1
                a.center_sample = n0 // 2
                a.read_dir[:] = (1, 0, 0)
                a.phase_dir[:] = (0, 1, 0)
                a.slice_dir[:] = (0, 0, 1)
                a.position[:] = (1.0, 2.0, 3.0)
                a.sample_time_us = 2.5
                a.discard_pre = cfg.get('discard', 0)
                a.discard_post = cfg.get('discard', 0)
                a.acquisition_time_stamp = 100 + sc
                acqs.append(a)
    info = AcqInfo.from_ismrmrd_acquisitions(acqs)
    info.apply_(lambda f: rearrange_acq_info_fields(f, '(other k2 k1) ... -> other k2 k1 ...', other=no, k2=n2, k1=n1))
    lim = EncodingLimits(k0=Limits(0, n0 - 1, n0 // 2), k1=Limits(0, n1 - 1, n1 // 2), k2=Limits(0, n2 - 1, n2 // 2),
                         repetition=Limits(0, no - 1, 0))
    header = KHeader(trajectory=KTrajectoryCartesian(), encoding_limits=lim,
                     recon_matrix=SpatialDimension(n2, n1, cfg.get('recon_x', n0)), recon_fov=SpatialDimension(0.1, 0.2, 0.3),
                     encoding_matrix=SpatialDimension(n2, n1, n0), encoding_fov=SpatialDimension(0.1, 0.2, 0.3),
                     acq_info=info, lamor_frequency_proton=1.0e8, te=torch.tensor([0.01]), tr=torch.tensor([1.0]),
                     fa=torch.tensor([0.5]), ti=torch.tensor([0.1]))
    header._misc['note'] = ['a', 1, {'b': 2}]
    data = _rnd([no, nc, n2, n1, n0], dt, g)
    if traj == 'cartesian':
        ktraj = KTrajectoryCartesian()(header)
    else:
        ktraj = traj
    kd = KData(header, data, ktraj)
    own(name + '.data', data)
    own(name, kd)
    return kd, header


# ------------------------------------------------------------------------------------------------
# linear operators
# ------------------------------------------------------------------------------------------------
def other_dt(rng, dt, p=0.25):
    """Mostly the dtype of the case, sometimes the other precision / the real-complex partner."""
    if rng.random() >= p:
        return dt
    return rng.choice([d for d in ('c64', 'c128', 'f32', 'f64') if d != dt])


LIN_CALLS = ['forward', 'forward', 'adjoint', 'adjoint', 'H_forward', 'H_adjoint', 'gram', 'H_gram', 'operator_norm']
WRAPS = ['none', 'none', 'none', 'scalar_left', 'scalar_right', 'tensor_left', 'tensor_right', 'sum_self', 'normal', 'adj',
         'sum_identity_scaled']


def lin_gen_call(rng, cfg, dt, tier):
    call = rng.choice(cfg.get('calls', LIN_CALLS))
    batches = cfg.get('batches', [[]])
    dts = cfg.get('dtypes')
    adt = other_dt(rng, dt)
    if dts and adt not in dts:
        adt = rng.choice(dts)
    arg = {'batch': rng.choice(batches), 'dtype': adt, 'kind': rng.choice(cfg.get('kinds', KINDS)),
           'seed': rng.randrange(10 ** 6)}
    if call == 'operator_norm':
        arg['iters'] = rng.randint(1, 3)
        if rng.random() < 0.85:  # operator_norm compares with a float32 zero: double precision input raises (not a C10 matter)
            arg['dtype'] = {'f64': 'f32', 'c128': 'c64'}.get(arg['dtype'], arg['dtype'])
            if dts and arg['dtype'] not in dts:
                arg['dtype'] = dts[0]
    return {'call': call, 'arg': arg}


def _wrap(op, cfg, seed, own, dt):
    """Build scalar multiples / sums / compositions around the base operator. Returns (op, domain_is_range_swapped)."""
    import mrpro.operators as ops
    w = cfg.get('wrap', 'none')
    g = torch.Generator().manual_seed(seed + 17)
    if w == 'scalar_left':
        return 2.5 * op, 'same'
    if w == 'scalar_right':
        return op * (0.5 + 0.25j if DT[dt].is_complex else 0.5), 'same'
    if w == 'tensor_left':
        t = own('wrap.scalar_tensor', _rnd([], dt, g, 1, 6))
        return t * op, 'same'
    if w == 'tensor_right':
        t = own('wrap.scalar_tensor', _rnd([1], dt, g, 1, 6))
        return op * t, 'same'
    if w == 'sum_self':
        return op + 0.5 * op, 'same'
    if w == 'normal':
        return op.H @ op, 'dom'
    if w == 'adj':
        return op.H, 'swap'
    if w == 'sum_identity_scaled':
        return op.gram + 0.25 * ops.IdentityOp(), 'dom'
    return op, 'same'


def lin_build(builder):
    def build(case, own):
        cfg, dt, seed = case['cfg'], case['dtype'], case['seed']
        op, dom, rng_shape, extra = builder(cfg, dt, seed, own)
        base = op
        if rng_shape is None:
            # range shape from a throw-away instance, so that the instance under test has seen no call yet
            try:
                probe = builder(cfg, dt, seed, lambda n, x: x)[0]
                pdt = dt if not cfg.get('dtypes') or dt in cfg['dtypes'] else cfg['dtypes'][0]
                rng_shape = list(probe(torch.zeros(list(dom), dtype=DT[pdt]))[0].shape)
            except Exception:  # noqa: BLE001
                rng_shape = None
        op, mode = _wrap(op, cfg, seed, own, dt)
        if mode == 'dom':
            rng_shape = dom
        elif mode == 'swap':
            dom, rng_shape = rng_shape, dom
        return {'op': op, 'watch': [op, base], 'dom': list(dom), 'rng': list(rng_shape), **(extra or {})}
    return build


def lin_run(ctx, call, own, tag):
    op, a, name = ctx['op'], call['arg'], call['call']
    in_dom = name in ('forward', 'H_adjoint', 'gram', 'operator_norm')
    core = ctx['dom'] if in_dom else ctx['rng']
    if core is None:
        raise ValueError('range shape unknown')
    pre = ctx.get('batch_pos', 0)
    shape = list(a['batch']) + list(core) if pre == 0 else list(core[:pre]) + list(a['batch']) + list(core[pre:])
    x = make_tensor({'shape': shape, 'dtype': a['dtype'], 'kind': a['kind'], 'seed': a['seed']}, own, f'{tag}.x')
    _fire(ctx)
    if name == 'forward':
        return op(x)
    if name == 'adjoint':
        return op.adjoint(x)
    if name == 'H_forward':
        return op.H(x)
    if name == 'H_adjoint':
        return op.H.adjoint(x)
    if name == 'gram':
        return op.gram(x)
    if name == 'H_gram':
        return op.H.gram(x)
    if name == 'operator_norm':
        return op.operator_norm(x, dim=None, max_iterations=a.get('iters', 2))
    raise KeyError(name)


def add_linop(name, cfg_fn, builder, weight=1.0, wraps=True, max_len=None):
    def cfg(rng, dt):
        c = cfg_fn(rng, dt)
        if wraps and 'wrap' not in c:
            c['wrap'] = rng.choice(WRAPS)
        return c
    TARGETS[name] = Target(name, cfg, lin_build(builder), lin_gen_call, lin_run, weight, max_len)


# -- EinsumOp ------------------------------------------------------------------------------------
def _cfg_einsum(rng, dt):
    i, j = rng.randint(1, 4), rng.randint(1, 4)
    b = rng.choice([[], [], [2], [3]])
    return {'mshape': b + [i, j], 'mkind': rng.choice(KINDS), 'batches': [[], [2], [3]] if not b else [[], [2]]}


def _b_einsum(cfg, dt, seed, own):
    from mrpro.operators import EinsumOp
    m = make_tensor({'shape': cfg['mshape'], 'dtype': dt, 'kind': cfg['mkind'], 'seed': seed}, own, 'ctor.matrix')
    ms = cfg['mshape']
    return EinsumOp(m), ms[:-2] + [ms[-1]], ms[:-2] + [ms[-2]], None


add_linop('EinsumOp', _cfg_einsum, _b_einsum, weight=3)


# -- FastFourierOp -------------------------------------------------------------------------------
def _cfg_fft(rng, dt):
    nd = rng.randint(1, 3)
    dim = sorted(rng.sample([-3, -2, -1], nd))
    if rng.random() < 0.5:
        rec = [rng.randint(2, 5) for _ in dim]
        enc = [rng.choice([r, r + 1, r + 2, max(1, r - 1)]) for r in rec]
    else:
        rec = enc = None
    shape3 = [rng.randint(2, 5) for _ in range(3)]
    return {'dim': dim, 'rec': rec, 'enc': enc, 'shape3': shape3, 'batches': [[], [2], [1, 2]]}


def _b_fft(cfg, dt, seed, own):
    from mrpro.operators import FastFourierOp
    op = FastFourierOp(dim=tuple(cfg['dim']), recon_matrix=cfg['rec'], encoding_matrix=cfg['enc'])
    dom, rg = list(cfg['shape3']), list(cfg['shape3'])
    if cfg['rec'] is not None:
        for d, r, e in zip(cfg['dim'], cfg['rec'], cfg['enc']):
            dom[d], rg[d] = r, e
    return op, dom, rg, None


add_linop('FastFourierOp', _cfg_fft, _b_fft, weight=2)


# -- trajectories used by FourierOp / CartesianSamplingOp --------------------------------------------
def _traj(kind, cfg, seed, own, name='ctor.traj'):
    from mrpro.data import KTrajectory
    g = torch.Generator().manual_seed(seed + 5)
    ny, nx = cfg['ny'], cfg['nx']
    if kind == 'cart':
        kx = (torch.arange(nx) - nx // 2).to(torch.float32).reshape(1, 1, 1, nx)
        lines = cfg.get('lines') or list(range(ny))
        ky = (torch.tensor(lines) - ny // 2).to(torch.float32).reshape(1, 1, len(lines), 1)
        kz = torch.zeros(1, 1, 1, 1)
    else:  # radial, 2D
        nsp = cfg['spokes']
        ang = torch.arange(nsp).to(torch.float32) * (math.pi / nsp) + 0.1
        rad = (torch.arange(nx) - nx // 2).to(torch.float32) * (min(ny, nx) / nx) * 0.9 + 0.05
        kx = (rad[None, :] * torch.cos(ang)[:, None]).reshape(1, 1, nsp, nx)
        ky = (rad[None, :] * torch.sin(ang)[:, None]).reshape(1, 1, nsp, nx)
        kz = torch.zeros(1, 1, 1, 1)
    del g
    own(name + '.kz', kz), own(name + '.ky', ky), own(name + '.kx', kx)
    return own(name, KTrajectory(kz, ky, kx))


def _cfg_fourier_cart(rng, dt):
    ny, nx = rng.randint(2, 6), rng.randint(2, 6)
    lines = sorted(rng.sample(range(ny), rng.randint(2, ny))) if rng.random() < 0.6 else None
    if lines and rng.random() < 0.3:
        rng.shuffle(lines)
    pad = rng.random() < 0.4
    return {'ny': ny, 'nx': nx, 'lines': lines, 'ry': ny - (1 if pad and ny > 2 else 0), 'rx': nx - (1 if pad and nx > 2 else 0),
            'coils': rng.randint(1, 2), 'batches': [[1], [2]], 'dtypes': ['c64', 'c128'], '_dtype': CPLX_OF[dt]}


def _b_fourier_cart(cfg, dt, seed, own):
    from mrpro.data import SpatialDimension
    from mrpro.operators import FourierOp
    traj = _traj('cart', cfg, seed, own)
    rec = own('ctor.recon_matrix', SpatialDimension(1, cfg['ry'], cfg['rx']))
    enc = own('ctor.encoding_matrix', SpatialDimension(1, cfg['ny'], cfg['nx']))
    op = FourierOp(rec, enc, traj)
    nl = len(cfg['lines']) if cfg['lines'] else cfg['ny']
    return op, [cfg['coils'], 1, cfg['ry'], cfg['rx']], [cfg['coils'], 1, nl, cfg['nx']], None


add_linop('FourierOp:cartesian', _cfg_fourier_cart, _b_fourier_cart, weight=2)


def _cfg_fourier_radial(rng, dt):
    n = rng.choice([4, 6, 8])
    return {'ny': n, 'nx': n, 'spokes': rng.randint(2, 4), 'coils': rng.randint(1, 2), 'batches': [[1], [2]],
            'dtypes': ['c64'], '_dtype': 'c64', 'calls': ['forward', 'adjoint', 'H_forward', 'gram', 'forward', 'adjoint'],
            'wrap': rng.choice(['none', 'none', 'scalar_left', 'normal'])}


def _b_fourier_radial(cfg, dt, seed, own):
    from mrpro.data import SpatialDimension
    from mrpro.operators import FourierOp
    traj = _traj('radial', cfg, seed, own)
    rec = own('ctor.recon_matrix', SpatialDimension(1, cfg['ny'], cfg['nx']))
    enc = own('ctor.encoding_matrix', SpatialDimension(1, cfg['ny'], cfg['nx']))
    op = FourierOp(rec, enc, traj)
    return op, [cfg['coils'], 1, cfg['ny'], cfg['nx']], [cfg['coils'], 1, cfg['spokes'], cfg['nx']], None


add_linop('FourierOp:radial', _cfg_fourier_radial, _b_fourier_radial, weight=1, max_len=5)


def _cfg_cartsamp(rng, dt):
    c = _cfg_fourier_cart(rng, dt)
    c.pop('_dtype')
    c['dtypes'] = None
    c['batches'] = [[1], [2], [2, 1]]
    return c


def _b_cartsamp(cfg, dt, seed, own):
    from mrpro.data import SpatialDimension
    from mrpro.operators import CartesianSamplingOp
    traj = _traj('cart', cfg, seed, own)
    enc = own('ctor.encoding_matrix', SpatialDimension(1, cfg['ny'], cfg['nx']))
    op = CartesianSamplingOp(enc, traj)
    nl = len(cfg['lines']) if cfg['lines'] else cfg['ny']
    return op, [cfg['coils'], 1, cfg['ny'], cfg['nx']], [cfg['coils'], 1, nl, cfg['nx']], None


add_linop('CartesianSamplingOp', _cfg_cartsamp, _b_cartsamp, weight=1.5)


# -- ZeroPadOp / FiniteDifferenceOp / WaveletOp / IdentityOp / RearrangeOp ---------------------------------
def _cfg_zeropad(rng, dt):
    nd = rng.randint(1, 3)
    shape = [rng.randint(1, 5) for _ in range(nd)]
    k = rng.randint(1, nd)
    axes = sorted(rng.sample(range(nd), k))
    return {'shape': shape, 'dim': [a - nd if rng.random() < 0.5 else a for a in axes], 'axes': axes,
            'padded': [rng.randint(1, 7) for _ in axes], 'batches': [[]]}


def _b_zeropad(cfg, dt, seed, own):
    from mrpro.operators import ZeroPadOp
    orig = [cfg['shape'][a] for a in cfg['axes']]
    op = ZeroPadOp(dim=cfg['dim'], original_shape=orig, padded_shape=cfg['padded'])
    rg = list(cfg['shape'])
    for a, p in zip(cfg['axes'], cfg['padded']):
        rg[a] = p
    return op, cfg['shape'], rg, None


add_linop('ZeroPadOp', _cfg_zeropad, _b_zeropad)


def _cfg_findiff(rng, dt):
    nd = rng.randint(2, 3)
    shape = [rng.randint(2, 5) for _ in range(nd)]
    dim = sorted(rng.sample(range(-nd, 0), rng.randint(1, nd)))
    return {'shape': shape, 'dim': dim, 'mode': rng.choice(['central', 'forward', 'backward']),
            'pad_mode': rng.choice(['zeros', 'circular']), 'batches': [[]]}


def _b_findiff(cfg, dt, seed, own):
    from mrpro.operators import FiniteDifferenceOp
    op = FiniteDifferenceOp(dim=tuple(cfg['dim']), mode=cfg['mode'], pad_mode=cfg['pad_mode'])
    return op, cfg['shape'], [len(cfg['dim'])] + cfg['shape'], None


add_linop('FiniteDifferenceOp', _cfg_findiff, _b_findiff)


def _cfg_wavelet(rng, dt):
    nd = rng.randint(1, 2)
    return {'shape': [rng.choice([4, 6, 8]) for _ in range(nd)], 'wavelet': rng.choice(['haar', 'db2']),
            'with_domain_shape': rng.random() < 0.9, 'batches': [[], [2]],
            'calls': ['forward', 'forward', 'adjoint', 'H_forward', 'gram', 'operator_norm']}


def _b_wavelet(cfg, dt, seed, own):
    from mrpro.operators import WaveletOp
    nd = len(cfg['shape'])

    op = WaveletOp(domain_shape=cfg['shape'] if cfg['with_domain_shape'] else None, dim=tuple(range(-nd, 0)),
                   wavelet_name=cfg['wavelet'], level=1)
    return op, cfg['shape'], None, None


add_linop('WaveletOp', _cfg_wavelet, _b_wavelet)


def _cfg_identity(rng, dt):
    return {'shape': [rng.randint(1, 4) for _ in range(rng.randint(1, 3))], 'batches': [[], [2]]}


def _b_identity(cfg, dt, seed, own):
    from mrpro.operators import IdentityOp
    return IdentityOp(), cfg['shape'], cfg['shape'], None


add_linop('IdentityOp', _cfg_identity, _b_identity, weight=0.7)


def _cfg_rearrange(rng, dt):
    return {'shape': [rng.randint(1, 4), rng.randint(1, 4), 2], 'batches': [[]]}


def _b_rearrange(cfg, dt, seed, own):
    from mrpro.operators.RearrangeOp import RearrangeOp
    a, b, c = cfg['shape']
    return RearrangeOp('a b c -> c (b a)', additional_info={'a': a, 'b': b}), [a, b, c], [c, a * b], None


add_linop('RearrangeOp', _cfg_rearrange, _b_rearrange, weight=0.7)


# -- SensitivityOp / DensityCompensationOp / PCACompressionOp ----------------------------------------------
def _cfg_sens(rng, dt):
    return {'coils': rng.randint(1, 3), 'zyx': [rng.randint(1, 2), rng.randint(1, 4), rng.randint(1, 4)],
            'as_data': rng.random() < 0.4, 'mkind': rng.choice(KINDS), 'batches': [[], [2]], '_dtype': CPLX_OF[dt]}


def _b_sens(cfg, dt, seed, own):
    from mrpro.operators import SensitivityOp
    shape = [cfg['coils']] + cfg['zyx']
    if cfg['as_data']:
        from mrpro.data import CsmData
        data = make_tensor({'shape': [1] + shape, 'dtype': dt, 'kind': cfg['mkind'], 'seed': seed}, own, 'ctor.csm.data')
        kd, _ = make_kdata({'n_other': 1, 'n_coils': 1, 'n_k2': 1, 'n_k1': 2, 'n_k0': 2}, seed, lambda n, x: x)
        csm = own('ctor.csm', CsmData(data, kd.header))
        return SensitivityOp(csm), [1] + [1] + cfg['zyx'], [1] + shape, {'batch_pos': 0, 'nobatch': True}
    csm = make_tensor({'shape': shape, 'dtype': dt, 'kind': cfg['mkind'], 'seed': seed}, own, 'ctor.csm')
    return SensitivityOp(csm), [1] + cfg['zyx'], shape, None


add_linop('SensitivityOp', _cfg_sens, _b_sens, weight=1.5)


def _cfg_dcfop(rng, dt):
    return {'k': [rng.randint(1, 2), rng.randint(1, 4), rng.randint(1, 4)], 'coils': rng.randint(1, 3),
            'as_data': rng.random() < 0.4, 'mkind': rng.choice(KINDS), 'batches': [[], [2]]}


def _b_dcfop(cfg, dt, seed, own):
    from mrpro.operators import DensityCompensationOp
    d = make_tensor({'shape': cfg['k'], 'dtype': REAL_OF[dt], 'kind': cfg['mkind'], 'seed': seed, 'lo': 1, 'hi': 8}, own,
                    'ctor.dcf')
    if cfg['as_data']:
        from mrpro.data import DcfData
        d = own('ctor.dcfdata', DcfData(d))
    return DensityCompensationOp(d), [cfg['coils']] + cfg['k'], [cfg['coils']] + cfg['k'], None


add_linop('DensityCompensationOp', _cfg_dcfop, _b_dcfop)


def _cfg_pca(rng, dt):
    comp = rng.randint(2, 4)
    return {'joint': rng.randint(3, 6), 'comp': comp, 'n': rng.randint(1, comp), 'mkind': rng.choice(KINDS),
            'rows': rng.randint(1, 3), 'batches': [[], [2]]}


def _b_pca(cfg, dt, seed, own):
    from mrpro.operators import PCACompressionOp
    d = make_tensor({'shape': [cfg['joint'], cfg['comp']], 'dtype': dt, 'kind': cfg['mkind'], 'seed': seed}, own, 'ctor.data')
    return PCACompressionOp(d, cfg['n']), [cfg['rows'], cfg['comp']], [cfg['rows'], cfg['n']], None


add_linop('PCACompressionOp', _cfg_pca, _b_pca)


# -- GridSamplingOp / SliceProjectionOp ------------------------------------------------------------------
def _cfg_grid(rng, dt):
    d3 = rng.random() < 0.3
    return {'d3': d3, 'in': [rng.randint(2, 4) for _ in range(3)], 'out': [rng.randint(1, 3) for _ in range(3)],
            'gb': rng.choice([1, 2]), 'mode': rng.choice(['bilinear', 'nearest'] + ([] if d3 else ['bicubic'])),
            'padding': rng.choice(['zeros', 'border', 'reflection']), 'align': rng.random() < 0.5,
            'mkind': rng.choice(['plain', 'view', 'noncontig']), 'batches': [[]], 'chan': rng.randint(1, 2),
            'dtypes': ['f32', 'f64', 'c64', 'c128']}


def _b_grid(cfg, dt, seed, own):
    from mrpro.data import SpatialDimension
    from mrpro.operators import GridSamplingOp
    nd = 3 if cfg['d3'] else 2
    gshape = [cfg['gb']] + cfg['out'][-nd:] + [nd]
    grid = make_tensor({'shape': gshape, 'dtype': REAL_OF[dt], 'kind': cfg['mkind'], 'seed': seed, 'lo': -4, 'hi': 4}, own,
                       'ctor.grid')
    ishape = own('ctor.input_shape', SpatialDimension(*cfg['in']))
    op = GridSamplingOp(grid, ishape, interpolation_mode=cfg['mode'], padding_mode=cfg['padding'], align_corners=cfg['align'])
    dom = [cfg['gb'], cfg['chan']] + cfg['in'][-nd:]
    rg = [cfg['gb'], cfg['chan']] + cfg['out'][-nd:]
    return op, dom, rg, None


add_linop('GridSamplingOp', _cfg_grid, _b_grid)


def _cfg_slice(rng, dt):
    n = rng.choice([3, 4])
    return {'n': n, 'shift': rng.choice([None, 'float', 'tensor']), 'width': rng.choice([1.0, 2.0]),
            'optimize_for': rng.choice(['forward', 'adjoint', 'both']), 'batches': [[]],
            'calls': ['forward', 'adjoint', 'H_forward', 'forward', 'adjoint', 'gram'],
            'wrap': rng.choice(['none', 'none', 'scalar_left', 'adj'])}


def _b_slice(cfg, dt, seed, own):
    from mrpro.data import SpatialDimension
    from mrpro.operators import SliceProjectionOp
    n = cfg['n']
    ishape = own('ctor.input_shape', SpatialDimension(n, n, n))
    kw = {}
    if cfg['shift'] == 'float':
        kw['slice_shift'] = 0.5
    elif cfg['shift'] == 'tensor':
        kw['slice_shift'] = own('ctor.slice_shift', torch.tensor([-0.5, 1.0]))
    op = SliceProjectionOp(ishape, slice_profile=cfg['width'], optimize_for=cfg['optimize_for'], **kw)
    return op, [n, n, n], None, None


add_linop('SliceProjectionOp', _cfg_slice, _b_slice, max_len=5)


LINOP_NAMES = [k for k in TARGETS]

FAMILIES = [
    Family('linop_histories', gen_for(LINOP_NAMES, 70, 1500), impl, None, '', None, oracle, nontrivial=nontrivial, descr=descr,
           theorem='C10_history (dynamic monitor)'),
]
