"""C10 - calls are pure: arguments, operators and source objects are never mutated; results depend only on the arguments.

Dynamic monitor.  A *case* is a seeded call history on one real mrpro object:

    {'target': <builder name>, 'seed': int, 'dtype': 'c64'|'c128'|'f32'|'f64', 'cfg': {...builder configuration...},
     'history': [{'call': 'forward'|'adjoint'|'gram'|'prox'|..., 'arg': {'kind': 'plain'|'view'|'expanded'|'noncontig',
                  'seed': int, ...}}, ...]}

`impl(case)` builds the object (every constructor tensor / data object is *caller owned* and registered), and for every
call of the history
  (a) snapshots all caller-owned tensors seen so far (values, Tensor._version, requires_grad, .grad) and, structurally,
      the object under test (parameters, buffers, every tensor / plain attribute reachable from vars()) and all
      caller-owned data objects (KData, KHeader, KTrajectory, SpatialDimension, ...),
  (b) executes the call, re-snapshots and compares,
  (c) executes the same call on a freshly built instance (same builder, same seed) with freshly created equal
      arguments and compares the two results,
  (d) counts outputs that share storage with caller-owned tensors (allowed; recorded only).
Failing histories are shrunk greedily inside impl.  The oracle reports the first problem of the shrunk history.
"""
from __future__ import annotations

import copy
import dataclasses
import enum
import math
import pickle
import random
import warnings

import torch

import vlib
from vlib import Family

LEVEL = 'proof'
RULE = ('Seeded call histories (quick: 284 histories of length 3-8, thorough: 6600 of length up to 15; 35% end with a verbatim '
        'repeat of an earlier call) on real mrpro objects built in memory: linear operators '
        '(EinsumOp, FastFourierOp, FourierOp Cartesian/radial, CartesianSamplingOp, ZeroPadOp, FiniteDifferenceOp, WaveletOp, '
        'SensitivityOp, DensityCompensationOp, GridSamplingOp, SliceProjectionOp, PCACompressionOp, IdentityOp, RearrangeOp and '
        'scalar/tensor multiples, sums, compositions, adjoints, gram), non-linear operators and signal models, functionals '
        '(forward/prox/prox_convex_conj with python / 0-dim / 1-element / broadcastable / expanded / tiny sigma), optimisers '
        '(cg, adam, lbfgs), reconstructions, KData transformations, trajectory calculators, dcf, prewhitening, csm. Arguments '
        'are plain, sliced/transposed views of a larger base, or expanded (stride 0) tensors of interleaved shapes and dtypes. '
        'After every call: all caller-owned tensors (values, _version, requires_grad, grad), the state of the object under '
        'test and all caller-owned data objects are compared with a snapshot taken before the call, and the result is compared '
        'with the result of the same call on a freshly built instance (and with the first result when a call is repeated). '
        'A call that raises is no finding when the fresh instance raises alike. Non-trivial = history of >= 2 calls with two different '
        'calls or argument kinds; distinct by case hash. A harness crash ({"raises": ...}) is not a finding and is counted '
        'under impl_raises in input_distribution (expected: 0).')
TRUSTED_BASE = ['dynamic monitor harness/props/C10.py: snapshot/compare of tensors (values, Tensor._version), module state and data objects',
                'torch.Tensor._version as the witness of in-place writes; untyped_storage().data_ptr() for aliasing',
                'translator harness/translate/effects.py (ast inventory of in-place write sites; fail-closed)']
ASSUMPTIONS = ['CPU execution; deterministic kernels up to reduction order (results compared exactly, then with rtol 1e-6 / 1e-12)',
               'an in-place write to a tensor bumps Tensor._version (PyTorch semantics)']

_BAD_SITES: list = []


# ------------------------------------------------------------------------------------------------
# >>> translate: filled / owned by the coordinator (static effect inventory, Coq tie) <<<
# ------------------------------------------------------------------------------------------------
def translate(ctx):
    """Regenerate Gen/effects_gen.v (inventory of in-place write sites of src/mrpro) and re-check its obligations."""
    global _BAD_SITES
    try:
        from translate import effects
    except Exception as e:  # noqa: BLE001  (translator not available yet)
        ctx.notes.append(f'effects translator not available ({e!r}); C10 rests on the dynamic monitor alone in this run')
        return
    out = vlib.COQ / 'Gen' / 'effects_gen.v'
    out.parent.mkdir(exist_ok=True)
    ok, why, info = effects.write(out)
    ctx.extra.setdefault('coverage', {})['translator_available'] = ok
    if not ok:
        ctx.notes.append(f'effects translator failed closed ({why}); C10 rests on the dynamic monitor alone in this run')
        ctx.obligations += 1
        ctx.problem('proof', 'gen_effects', None, f'the effect-site table could not be regenerated from the source (translator failed closed: {why})')
        return
    _BAD_SITES = list((info or {}).get('bad_sites', []))
    cov = ctx.extra.setdefault('coverage', {})
    cov['effect_sites'] = {'n_sites': info.get('n_sites'), 'n_files': info.get('n_files'), 'by_kind': info.get('by_kind'),
                           'by_origin': info.get('by_origin'), 'unused_allow': info.get('unused_allow')}
    for e in info.get('unused_allow') or []:
        ctx.problem('proof', 'effects_inventory', None, f'allow-list entry matches no in-place site any more (remove it): {e}')
    # allow-list entries marked "open-finding" are genuine purity violations kept only until the code is repaired:
    # they are reported on every run and must be covered by an open entry of known_findings.json
    for site in info.get('open_findings') or []:
        d = {k: site.get(k) for k in ('module', 'function', 'kind', 'target', 'origin', 'line')}
        ctx.problem('property', 'effects_inventory', d,
                    f'in-place write on a caller-visible object (allow-list status open-finding): {d}', d)
    ctx.obligations += 2
    rc, so, se = vlib.coqc_file(out)
    if rc == 0:
        ctx.discharged += 2
    elif _BAD_SITES:
        for site in _BAD_SITES[:5]:
            ctx.problem('proof', 'effects_inventory', None,
                        f'in-place write on a non-fresh object not on the allow-list: {site}')
    else:
        ctx.problem('proof', 'effects_inventory', None,
                    'regenerated effect-inventory obligations no longer prove: ' + (se or so)[-600:])


def search(ctx, broken):
    """Only the static inventory broke (an in-place write on a non-fresh object that is not on the allow-list) and the
    regular histories found nothing: draw further histories, first for the targets whose source file is named by an
    offending site, looking for a dynamic witness (a failing input of the property)."""
    if not _BAD_SITES:
        return
    text = ' '.join(str(s) for s in _BAD_SITES).lower()
    rng = random.Random(ctx.seed + 1)
    for rnd in range(3):
        for fam in FAMILIES:
            cases = fam.gen(rng, 'quick')
            hot = [c for c in cases if str(c.get('cfg', {}).get('which') or c['target']).split(':')[0].lower() in text]
            ctx.run_family(fam, (hot or cases[: max(8, len(cases) // 4)])[:120])
            if any(p['kind'] == 'property' for p in ctx.problems):
                return


# ------------------------------------------------------------------------------------------------
# dtypes, argument tensors
# ------------------------------------------------------------------------------------------------
DT = {'c64': torch.complex64, 'c128': torch.complex128, 'f32': torch.float32, 'f64': torch.float64,
      'i64': torch.int64}
REAL_OF = {'c64': 'f32', 'c128': 'f64', 'f32': 'f32', 'f64': 'f64'}
CPLX_OF = {'c64': 'c64', 'c128': 'c128', 'f32': 'c64', 'f64': 'c128'}
KINDS = ('plain', 'view', 'expanded', 'noncontig')


def _rnd(shape, dt, g, lo=-8, hi=8, scale=0.25):
    """Small dyadic values (exact in float32)."""
    dtype = DT[dt]
    shape = list(shape)
    re = torch.randint(lo, hi + 1, shape, generator=g).to(torch.float64) * scale
    if dtype.is_complex:
        im = torch.randint(lo, hi + 1, shape, generator=g).to(torch.float64) * scale
        return torch.complex(re, im).to(dtype)
    return re.to(dtype)


class Registry:
    """Everything the *caller* owns: tensors (incl. bases of views) and data objects."""

    def __init__(self):
        self.tensors: list[tuple[str, torch.Tensor]] = []
        self.objects: list[tuple[str, object]] = []
        self._ids: set[int] = set()

    def own(self, name, x):
        if x is None:
            return x
        if isinstance(x, torch.Tensor):
            if id(x) not in self._ids:
                self._ids.add(id(x))
                self.tensors.append((name, x))
        else:
            if id(x) not in self._ids:
                self._ids.add(id(x))
                self.objects.append((name, x))
        return x

    def storages(self):
        s = set()
        for _, t in self.tensors:
            try:
                s.add(t.untyped_storage().data_ptr())
            except Exception:  # noqa: BLE001
                pass
        for _, o in self.objects:
            for leaf in snap(o).values():
                if leaf[0] == 'T' and leaf[5] is not None:
                    s.add(leaf[5])
        s.discard(0)
        return s


def make_tensor(spec, own, name):
    """Create a caller-owned argument tensor from a JSON spec {'shape', 'dtype', 'kind', 'seed', lo?, hi?, scale?}."""
    shape = [int(s) for s in spec['shape']]
    dt, kind = spec['dtype'], spec.get('kind', 'plain')
    g = torch.Generator().manual_seed(int(spec['seed']))
    kw = {k: spec[k] for k in ('lo', 'hi', 'scale') if k in spec}
    nd = len(shape)
    if kind == 'view':
        if nd == 0:
            base = _rnd([3], dt, g, **kw)
            x = base[1]
        else:
            big = list(shape)
            big[-1] += 2
            big[0] += 1 if nd > 1 else 0
            base = _rnd(big, dt, g, **kw)
            idx = [slice(None)] * nd
            idx[-1] = slice(1, 1 + shape[-1])
            if nd > 1:
                idx[0] = slice(1, None)
            x = base[tuple(idx)]
        own(name + '.base', base)
    elif kind == 'noncontig' and nd >= 1:
        if nd >= 2:
            sw = list(shape)
            sw[-1], sw[-2] = sw[-2], sw[-1]
            base = _rnd(sw, dt, g, **kw)
            x = base.transpose(-1, -2)
        else:
            base = _rnd([2 * shape[0]], dt, g, **kw)
            x = base[::2]
        own(name + '.base', base)
    elif kind == 'expanded' and nd >= 1 and any(s > 1 for s in shape):
        a = next(i for i, s in enumerate(shape) if s > 1)
        one = list(shape)
        one[a] = 1
        base = _rnd(one, dt, g, **kw)
        x = base.expand(shape)
        own(name + '.base', base)
    else:
        x = _rnd(shape, dt, g, **kw)
    return own(name, x)


def tspec(rng, shape, dt, kinds=KINDS, **kw):
    d = {'shape': list(shape), 'dtype': dt, 'kind': rng.choice(kinds), 'seed': rng.randrange(10 ** 6)}
    d.update(kw)
    return d


# ------------------------------------------------------------------------------------------------
# structural snapshots
# ------------------------------------------------------------------------------------------------
_PRIM = (bool, int, float, complex, str, bytes, type(None), enum.Enum, torch.dtype, torch.device, torch.Size, slice,
         type(Ellipsis))
_SKIP_ATTRS = {'_backward_pre_hooks', '_backward_hooks', '_forward_hooks', '_forward_hooks_with_kwargs',
               '_forward_hooks_always_called', '_forward_pre_hooks', '_forward_pre_hooks_with_kwargs', '_state_dict_hooks',
               '_state_dict_pre_hooks', '_load_state_dict_pre_hooks', '_load_state_dict_post_hooks', '_is_full_backward_hook'}


def _tleaf(t: torch.Tensor):
    try:
        ptr = t.untyped_storage().data_ptr()
    except Exception:  # noqa: BLE001
        ptr = None
    try:
        val = t.detach()
        val = val.to_dense().clone() if val.layout != torch.strided else val.clone()
    except Exception:  # noqa: BLE001
        val = None
    return ('T', val, t._version, bool(t.requires_grad), t.grad is None, ptr, tuple(t.shape), str(t.dtype))


def snap(obj, out=None, path='', memo=None, depth=0):
    """Flat {path: leaf} description of everything reachable from obj.  Leaves: ('T', clone, version, requires_grad,
    grad_is_none, storage_ptr, shape, dtype) for tensors, ('P', repr) for plain values, ('R', path) for repeated
    references, ('O', typename) for opaque objects (functions, generators, ...)."""
    if out is None:
        out, memo = {}, {}
    if isinstance(obj, torch.Tensor):
        out[path] = _tleaf(obj)
        return out
    if isinstance(obj, _PRIM):
        out[path] = ('P', repr(obj))
        return out
    if id(obj) in memo:
        out[path] = ('R', memo[id(obj)])
        return out
    if depth > 12:
        out[path] = ('O', type(obj).__name__)
        return out
    memo[id(obj)] = path
    if isinstance(obj, dict):
        out[path + '#len'] = ('P', str(len(obj)))
        for k, v in obj.items():
            snap(v, out, f'{path}[{k!r}]', memo, depth + 1)
    elif isinstance(obj, (list, tuple)):
        out[path + '#len'] = ('P', str(len(obj)))
        for i, v in enumerate(obj):
            snap(v, out, f'{path}[{i}]', memo, depth + 1)
    elif isinstance(obj, (set, frozenset)):
        out[path] = ('P', repr(sorted(repr(v) for v in obj)))
    elif type(obj).__module__.startswith('numpy'):
        try:
            out[path] = ('P', repr(obj.tolist()) + str(getattr(obj, 'dtype', '')))
        except Exception:  # noqa: BLE001
            out[path] = ('O', type(obj).__name__)
    elif callable(obj) and not isinstance(obj, torch.nn.Module) and not dataclasses.is_dataclass(obj) \
            and not hasattr(obj, '__dict__') and not hasattr(obj, '__slots__'):
        out[path] = ('O', getattr(obj, '__qualname__', type(obj).__name__))
    elif isinstance(obj, (type, torch.Generator)) or type(obj).__name__ in ('function', 'builtin_function_or_method', 'method',
                                                                            'partial'):
        out[path] = ('O', getattr(obj, '__qualname__', type(obj).__name__))
    else:
        names = []
        if hasattr(obj, '__dict__'):
            names += list(vars(obj))
        for klass in type(obj).__mro__:
            sl = klass.__dict__.get('__slots__', ())
            names += [sl] if isinstance(sl, str) else list(sl)
        seen = set()
        found = False
        for n in names:
            if n in seen or n in _SKIP_ATTRS or n in ('__dict__', '__weakref__'):
                continue
            seen.add(n)
            try:
                v = getattr(obj, n) if not (hasattr(obj, '__dict__') and n in vars(obj)) else vars(obj)[n]
            except AttributeError:
                continue
            found = True
            snap(v, out, f'{path}.{n}', memo, depth + 1)
        out[path + '#type'] = ('P', type(obj).__name__)
        if not found:
            try:
                out[path] = ('P', repr(pickle.dumps(obj))[:2000])
            except Exception:  # noqa: BLE001
                out[path] = ('O', type(obj).__name__)
    return out


def teq(a: torch.Tensor | None, b: torch.Tensor | None) -> bool:
    """NaN-aware exact equality of values, shape and dtype."""
    if a is None or b is None:
        return a is b
    if a.shape != b.shape or a.dtype != b.dtype:
        return False
    if a.numel() == 0:
        return True
    if torch.equal(a, b):
        return True
    if a.dtype.is_floating_point or a.dtype.is_complex:
        return bool(((a == b) | ((a != a) & (b != b))).all())
    return False


def tclose(a: torch.Tensor, b: torch.Tensor) -> bool:
    """Equality of results up to reduction-order rounding."""
    if teq(a, b):
        return True
    if a.shape != b.shape or a.dtype != b.dtype:
        return False
    if not (a.dtype.is_floating_point or a.dtype.is_complex):
        return False
    single = a.dtype in (torch.float32, torch.complex64, torch.float16, torch.bfloat16)
    rtol = 1e-6 if single else 1e-12
    scale = float(a.abs().max()) if a.numel() and bool(torch.isfinite(a.abs()).all()) else 1.0
    return bool(torch.allclose(a, b, rtol=rtol * 8, atol=rtol * 8 * max(scale, 1e-30), equal_nan=True))


def diff_snap(before: dict, after: dict, versions: bool, allow_new: bool):
    """First difference between two snapshots of the same object (None if identical)."""
    for p, lb in before.items():
        la = after.get(p)
        if la is None:
            return 'removed', f'{p or "<self>"} disappeared'
        if lb[0] != la[0]:
            return 'value', f'{p or "<self>"}: {lb[0]} became {la[0]}'
        if lb[0] == 'T':
            if lb[6] != la[6] or lb[7] != la[7]:
                return 'value', f'{p or "<self>"}: shape/dtype {lb[6]} {lb[7]} -> {la[6]} {la[7]}'
            if not teq(lb[1], la[1]):
                return 'value', f'{p or "<self>"}: tensor values changed{_where(lb[1], la[1])}'
            if lb[3] != la[3] or lb[4] != la[4]:
                return 'value', f'{p or "<self>"}: requires_grad/grad changed ({lb[3]},{lb[4]})->({la[3]},{la[4]})'
            if versions and lb[2] != la[2]:
                return 'version', f'{p or "<self>"}: _version {lb[2]} -> {la[2]} (in-place write)'
        elif lb[1] != la[1]:
            return 'value', f'{p or "<self>"}: {str(lb[1])[:60]} -> {str(la[1])[:60]}'
    if not allow_new:
        for p in after:
            if p not in before:
                return 'added', f'{p} appeared'
    else:
        for p in after:
            if p not in before and ('._buffers[' in p or '._parameters[' in p):
                return 'added', f'{p} appeared'
    return None


def _where(a, b):
    try:
        d = (a != b) & ~((a != a) & (b != b))
        i = d.flatten().nonzero()[0].item()
        return f' (first at flat index {i}: {a.flatten()[i].item()} -> {b.flatten()[i].item()}, {int(d.sum())} of {d.numel()} elements)'
    except Exception:  # noqa: BLE001
        return ''


def result_leaves(res):
    """Flatten a result (tensors, tuples, data objects) into comparable leaves."""
    return snap(res)


def snap_detached(res):
    """Snapshot (clones) of a result, so that later aliasing writes cannot change the reference."""
    return _Snap(snap(res))


class _Snap:
    def __init__(self, leaves):
        self.leaves = leaves


def compare_results(r1, r2):
    """None if the two results agree, else a short description."""
    l1 = r1.leaves if isinstance(r1, _Snap) else result_leaves(r1)
    l2 = r2.leaves if isinstance(r2, _Snap) else result_leaves(r2)
    if set(l1) != set(l2):
        odd = sorted(set(l1) ^ set(l2))[:3]
        return f'result structure differs at {odd}'
    for p, a in l1.items():
        b = l2[p]
        if a[0] != b[0]:
            return f'result{p}: kind {a[0]} vs {b[0]}'
        if a[0] == 'T':
            if a[6] != b[6] or a[7] != b[7]:
                return f'result{p}: shape/dtype {a[6]} {a[7]} vs fresh {b[6]} {b[7]}'
            if not tclose(a[1], b[1]):
                err = float((a[1].to(torch.complex128) - b[1].to(torch.complex128)).abs().max()) if a[1].numel() else 0.0
                return f'result{p}: values differ from a fresh instance (max abs diff {err:.3g}, scale {float(a[1].abs().max()):.3g})'
        elif a[0] == 'P' and a[1] != b[1]:
            return f'result{p}: {str(a[1])[:50]} vs fresh {str(b[1])[:50]}'
    return None


# ------------------------------------------------------------------------------------------------
# the monitor
# ------------------------------------------------------------------------------------------------
class Target:
    """One kind of object under test.

    cfg(rng, dt) -> JSON configuration of the builder;  build(case, own) -> ctx dict with at least 'watch' (objects whose
    state must not change);  gen_call(rng, cfg, dt, tier) -> call dict;  run(ctx, call, own, tag) -> result."""

    def __init__(self, name, cfg, build, gen_call, run, weight=1.0, max_len=None):
        self.name, self.cfg, self.build, self.gen_call, self.run = name, cfg, build, gen_call, run
        self.weight, self.max_len = weight, max_len


TARGETS: dict[str, Target] = {}


def _exec(tgt, ctx, call, reg, tag):
    try:
        with warnings.catch_warnings():
            warnings.simplefilter('ignore')
            return tgt.run(ctx, call, reg.own, tag), None
    except Exception as e:  # noqa: BLE001
        return None, f'{vlib.exc_enum(e)}: {str(e)[:100]}'


def _build(tgt, case, reg):
    with warnings.catch_warnings():
        warnings.simplefilter('ignore')
        return tgt.build(case, reg.own)


def run_history(case, history, fresh_check=True):
    tgt = TARGETS[case['target']]
    reg = Registry()
    ctx = _build(tgt, case, reg)
    problems, skipped, notes = [], [], []
    shared = 0
    earlier = []  # (step, call, leaves of earlier results)
    first_result = {}  # call spec -> (step, result) of its first execution on this instance

    def add(i, call, what, detail):
        problems.append({'step': i, 'call': call['call'], 'what': what, 'detail': detail[:300]})

    for i, call in enumerate(history):
        tag = f'c{i}'
        # the arguments are created inside the target's run(); it fires ctx['_hook'] after creating (and registering) them
        # and immediately before calling into mrpro, which is when the 'before' snapshots are taken.
        state = {}

        def hook():
            state['t'] = [(n, _tleaf(t)) for n, t in reg.tensors]
            state['o'] = [(n, snap(o)) for n, o in reg.objects]
            state['w'] = snap(ctx['watch'])
            state['e'] = [(s, c, snap(r)) for s, c, r in earlier]

        ctx['_hook'] = hook
        res, exc = _exec(tgt, ctx, call, reg, tag)
        if 't' not in state:
            # the call failed while building its arguments: harness-side, not an observation
            skipped.append(f'step {i} {call["call"]}: arguments could not be built: {exc}')
            continue
        # (a) caller-owned tensors
        for (n, lb), (_, t) in zip(state['t'], reg.tensors):
            la = _tleaf(t)
            if not teq(lb[1], la[1]):
                add(i, call, 'arg_mutated', f'{n}: values changed{_where(lb[1], la[1])}')
            elif lb[3] != la[3] or lb[4] != la[4]:
                add(i, call, 'arg_mutated', f'{n}: requires_grad/grad changed ({lb[3]}, grad None {lb[4]}) -> ({la[3]}, grad None {la[4]})')
            elif lb[2] != la[2]:
                add(i, call, 'version_bumped', f'{n}: _version {lb[2]} -> {la[2]} with equal values (in-place write)')
        # (b) caller-owned data objects and the object under test
        for (n, sb), (_, o) in zip(state['o'], reg.objects):
            d = diff_snap(sb, snap(o), versions=True, allow_new=False)
            if d:
                add(i, call, 'source_object_changed', f'{n}{d[1]}')
        d = diff_snap(state['w'], snap(ctx['watch']), versions=False, allow_new=True)
        if d:
            add(i, call, 'module_state_changed', d[1])
        else:
            dv = diff_snap(state['w'], snap(ctx['watch']), versions=True, allow_new=True)
            if dv:
                notes.append(f'step {i} {call["call"]}: {dv[1]} (values equal; not counted)')
        for (s, c, sb), (_, _, r) in zip(state['e'], earlier):
            d = diff_snap(sb, snap(r), versions=False, allow_new=True)
            if d:
                add(i, call, 'history_dependent', f'the result returned by step {s} ({c}) was changed by this call: {d[1]}')
        # (c) same call on a fresh instance
        if exc is not None:
            skipped.append(f'step {i} {call["call"]}: {exc}')
        if fresh_check and (i > 0 or exc is not None):
            reg2 = Registry()
            try:
                ctx2 = _build(tgt, case, reg2)
                ctx2['_hook'] = lambda: None
                res2, exc2 = _exec(tgt, ctx2, call, reg2, tag)
            except Exception as e:  # noqa: BLE001
                res2, exc2 = None, f'fresh build failed: {e!r}'
            if (exc is None) != (exc2 is None):
                add(i, call, 'history_dependent', f'after this history: {exc or "returns"}; fresh instance: {exc2 or "returns"}')
            elif exc is None:
                msg = compare_results(res, res2)
                if msg:
                    add(i, call, 'history_dependent', msg)
            elif exc.split(':')[0] != exc2.split(':')[0]:
                add(i, call, 'history_dependent', f'raises {exc} after this history but {exc2} on a fresh instance')
        # (c') repeating a call on the same instance gives the same result
        key = repr(sorted(call.items(), key=lambda kv: kv[0]))
        if key in first_result and exc is None:
            msg = compare_results(res, first_result[key][1])
            if msg:
                add(i, call, 'history_dependent', f'repeating the call of step {first_result[key][0]} gives another result: {msg}')
        elif exc is None:
            first_result[key] = (i, snap_detached(res))
        # (d) aliasing of outputs with caller-owned storage (allowed, recorded)
        if res is not None:
            st = reg.storages()
            for leaf in snap(res).values():
                if leaf[0] == 'T' and leaf[5] in st:
                    shared += 1
            earlier.append((i, call['call'], res))
            if len(earlier) > 3:
                earlier.pop(0)
    return {'problems': problems, 'skipped': skipped, 'notes': notes[:5], 'shared_outputs': shared, 'n_calls': len(history)}


def impl(case):
    obs = run_history(case, case['history'])
    obs['shrunk_history'] = []
    if obs['problems']:
        want = obs['problems'][0]['what']
        hist = list(case['history'])
        first = obs['problems'][0]
        runs = 0
        i = len(hist) - 1
        while i >= 0 and runs < 25 and len(hist) > 1:
            cand = hist[:i] + hist[i + 1:]
            runs += 1
            try:
                o2 = run_history(case, cand)
            except Exception:  # noqa: BLE001
                o2 = {'problems': []}
            hit = [p for p in o2['problems'] if p['what'] == want]
            if hit:
                hist, first = cand, hit[0]
            i -= 1
            i = min(i, len(hist) - 1)
        obs['shrunk_history'] = hist
        obs['shrunk_problem'] = first
    obs['problems'] = obs['problems'][:6]
    obs['skipped'] = obs['skipped'][:6]
    return obs


def oracle(case, obs):
    if not isinstance(obs, dict) or 'raises' in obs or 'problems' not in obs:
        return None  # harness crash: not a finding of the property (counted as impl_raises)
    if not obs['problems']:
        return None
    p = obs.get('shrunk_problem') or obs['problems'][0]
    hist = obs.get('shrunk_history') or case['history']
    hs = ' ; '.join(_call_str(c) for c in hist)
    return (f'{case["target"]} [{case["dtype"]}]: {p["what"]} at step {p["step"]} ({p["call"]}) of the history [{hs}]: '
            f'{p["detail"]}')[:900]


def _call_str(c):
    a = c.get('arg') or {}
    bits = [c['call']]
    for k in ('kind', 'dtype', 'batch', 'sigma', 'init'):
        if k in a:
            bits.append(f'{k}={a[k] if not isinstance(a[k], dict) else a[k].get("form", a[k].get("kind"))}')
    return '(' + ' '.join(str(b) for b in bits) + ')'


def descr(case):
    kinds = set()
    for c in case['history']:
        a = c.get('arg') or {}
        for v in [a] + [x for x in a.values() if isinstance(x, dict)]:
            if 'kind' in v:
                kinds.add(v['kind'])
            if 'form' in v:
                kinds.add('sigma:' + v['form'])
    return {'target': case['target'], 'object': case.get('cfg', {}).get('which') or case['target'].split(':')[0],
            'wrap': case.get('cfg', {}).get('wrap', 'none'), 'dtype': case['dtype'],
            'calls': sorted({c['call'] for c in case['history']}), 'arg_kinds': sorted(kinds),
            'cfg': case.get('cfg', {})}


def nontrivial(case):
    h = case['history']
    if len(h) < 2:
        return False
    sig = set()
    for c in h:
        a = c.get('arg', {})
        sig.add((c['call'],) + tuple(json_key(a.get(k)) for k in ('kind', 'dtype', 'batch', 'variant', 'shape', 'shapes', 'init',
                                                                    'n_other', 'idx', 'n'))
                + (json_key((a.get('sigma') or {}).get('form')), json_key((a.get('sigma') or {}).get('values'))))
    return len(sig) >= 2


def json_key(x):
    return x if isinstance(x, (str, int, float, type(None))) else repr(x)


def gen_for(names, quick_n, thorough_n):
    def gen(rng, tier):
        n = quick_n if tier == 'quick' else thorough_n
        tg = [TARGETS[k] for k in names if k in TARGETS]
        weights = [t.weight for t in tg]
        cases = []
        for k in range(n):
            t = tg[k] if k < len(tg) else rng.choices(tg, weights)[0]  # every target at least once
            dt = rng.choice(['c64', 'c64', 'c128', 'f32', 'f64'])
            cfg = t.cfg(rng, dt)
            dt = cfg.pop('_dtype', dt)
            hi = 8 if tier == 'quick' else 15
            ln = rng.randint(3, hi)
            if t.max_len:
                ln = min(ln, t.max_len if tier == 'quick' else 2 * t.max_len)
            case = {'target': t.name, 'seed': rng.randrange(10 ** 6), 'dtype': dt, 'cfg': cfg, 'history': []}
            case['history'] = [t.gen_call(rng, cfg, dt, tier) for _ in range(ln)]
            if ln >= 3 and rng.random() < 0.35:  # repeat an earlier call verbatim at the end
                case['history'][-1] = copy.deepcopy(case['history'][rng.randrange(ln - 2)])
            cases.append(case)
        return cases
    return gen


def _fire(ctx):
    ctx['_hook']()


# ------------------------------------------------------------------------------------------------
# in-memory KData (header with AcqInfo from ismrmrd acquisitions created in memory; nothing is read from disk)
# ------------------------------------------------------------------------------------------------
def make_kdata(cfg, seed, own, name='kdata', dt='c64', traj='cartesian'):
    import ismrmrd
    from mrpro.data import AcqInfo, EncodingLimits, KData, KHeader, KTrajectory, SpatialDimension
    from mrpro.data.AcqInfo import rearrange_acq_info_fields
    from mrpro.data.EncodingLimits import Limits
    from mrpro.data.traj_calculators import KTrajectoryCartesian
    no, nc, n2, n1, n0 = cfg['n_other'], cfg['n_coils'], cfg['n_k2'], cfg['n_k1'], cfg['n_k0']
    g = torch.Generator().manual_seed(seed + 3)
    acqs, sc = [], 0
    for o in range(no):
        for k2 in range(n2):
            for k1 in range(n1):
                a = ismrmrd.Acquisition()
                a.resize(n0, nc, trajectory_dimensions=2)
                a.idx.kspace_encode_step_1 = k1
                a.idx.kspace_encode_step_2 = k2
                a.idx.repetition = o
                a.scan_counter = sc
                sc += 1
                a.center_sample = n0 // 2
                a.read_dir[:] = (1, 0, 0)
                a.phase_dir[:] = (0, 1, 0)
                a.slice_dir[:] = (0, 0, 1)
                a.position[:] = (1.0, 2.0, 3.0)
                a.sample_time_us = 2.5
                a.discard_pre = cfg.get('discard', 0)
                a.discard_post = cfg.get('discard', 0)
                a.acquisition_time_stamp = 100 + sc
                acqs.append(a)
    info = AcqInfo.from_ismrmrd_acquisitions(acqs)
    info.apply_(lambda f: rearrange_acq_info_fields(f, '(other k2 k1) ... -> other k2 k1 ...', other=no, k2=n2, k1=n1))
    lim = EncodingLimits(k0=Limits(0, n0 - 1, n0 // 2), k1=Limits(0, n1 - 1, n1 // 2), k2=Limits(0, n2 - 1, n2 // 2),
                         repetition=Limits(0, no - 1, 0))
    header = KHeader(trajectory=KTrajectoryCartesian(), encoding_limits=lim,
                     recon_matrix=SpatialDimension(n2, n1, cfg.get('recon_x', n0)), recon_fov=SpatialDimension(0.1, 0.2, 0.3),
                     encoding_matrix=SpatialDimension(n2, n1, n0), encoding_fov=SpatialDimension(0.1, 0.2, 0.3),
                     acq_info=info, lamor_frequency_proton=1.0e8, te=torch.tensor([0.01]), tr=torch.tensor([1.0]),
                     fa=torch.tensor([0.5]), ti=torch.tensor([0.1]))
    header._misc['note'] = ['a', 1, {'b': 2}]
    data = _rnd([no, nc, n2, n1, n0], dt, g)
    if traj == 'cartesian':
        ktraj = KTrajectoryCartesian()(header)
    else:
        ktraj = traj
    kd = KData(header, data, ktraj)
    own(name + '.data', data)
    own(name, kd)
    return kd, header


# ------------------------------------------------------------------------------------------------
# linear operators
# ------------------------------------------------------------------------------------------------
_PARTNER = {'c64': 'c128', 'c128': 'c64', 'f32': 'f64', 'f64': 'f32'}


def other_dt(rng, dt, p=0.3):
    """Mostly the dtype of the case, sometimes the other precision / the real-complex partner."""
    if rng.random() >= p:
        return dt
    if rng.random() < 0.5:
        return _PARTNER[dt]
    return rng.choice([d for d in ('c64', 'c128', 'f32', 'f64') if d != dt])


LIN_CALLS = ['forward', 'forward', 'adjoint', 'adjoint', 'H_forward', 'H_adjoint', 'gram', 'H_gram', 'operator_norm']
WRAPS = ['none', 'none', 'none', 'scalar_left', 'scalar_right', 'tensor_left', 'tensor_right', 'sum_self', 'normal', 'adj',
         'sum_identity_scaled', 'compose', 'sum_compose']


def lin_gen_call(rng, cfg, dt, tier):
    call = rng.choice(cfg.get('calls', LIN_CALLS))
    batches = cfg.get('batches', [[]])
    dts = cfg.get('dtypes')
    adt = other_dt(rng, dt)
    if dts and adt not in dts:
        adt = rng.choice(dts)
    arg = {'batch': rng.choice(batches), 'dtype': adt, 'kind': rng.choice(cfg.get('kinds', KINDS)),
           'seed': rng.randrange(10 ** 6)}
    if call == 'operator_norm':
        arg['iters'] = rng.randint(1, 3)
        if rng.random() < 0.85:  # operator_norm compares with a float32 zero: double precision input raises (not a C10 matter)
            arg['dtype'] = {'f64': 'f32', 'c128': 'c64'}.get(arg['dtype'], arg['dtype'])
            if dts and arg['dtype'] not in dts:
                arg['dtype'] = dts[0]
    return {'call': call, 'arg': arg}


def _wrap(op, cfg, seed, own, dt):
    """Build scalar multiples / sums / compositions around the base operator. Returns (op, domain_is_range_swapped)."""
    import mrpro.operators as ops
    w = cfg.get('wrap', 'none')
    g = torch.Generator().manual_seed(seed + 17)
    if w == 'scalar_left':
        return 2.5 * op, 'same'
    if w == 'scalar_right':
        return op * (0.5 + 0.25j if DT[dt].is_complex else 0.5), 'same'
    if w == 'tensor_left':
        t = own('wrap.scalar_tensor', _rnd([], dt, g, 1, 6))
        return t * op, 'same'
    if w == 'tensor_right':
        t = own('wrap.scalar_tensor', _rnd([1], dt, g, 1, 6))
        return op * t, 'same'
    if w == 'sum_self':
        return op + 0.5 * op, 'same'
    if w == 'normal':
        return op.H @ op, 'dom'
    if w == 'adj':
        return op.H, 'swap'
    if w == 'sum_identity_scaled':
        return op.gram + 0.25 * ops.IdentityOp(), 'dom'
    if w == 'compose':  # A @ B with B a tensor multiple of the identity (B's tensor is caller-owned)
        t = own('wrap.scalar_tensor', _rnd([], dt, g, 1, 6))
        return op @ (t * ops.IdentityOp()), 'same'
    if w == 'sum_compose':  # A + A @ B
        return op + op @ (2.0 * ops.IdentityOp()), 'same'
    return op, 'same'


def lin_build(builder):
    def build(case, own):
        cfg, dt, seed = case['cfg'], case['dtype'], case['seed']
        op, dom, rng_shape, extra = builder(cfg, dt, seed, own)
        base = op
        if rng_shape is None:
            # range shape from a throw-away instance, so that the instance under test has seen no call yet
            try:
                probe = builder(cfg, dt, seed, lambda n, x: x)[0]
                pdt = dt if not cfg.get('dtypes') or dt in cfg['dtypes'] else cfg['dtypes'][0]
                rng_shape = list(probe(torch.zeros(list(dom), dtype=DT[pdt]))[0].shape)
            except Exception:  # noqa: BLE001
                rng_shape = None
        op, mode = _wrap(op, cfg, seed, own, dt)
        if mode == 'dom':
            rng_shape = dom
        elif mode == 'swap':
            dom, rng_shape = rng_shape, dom
        return {'op': op, 'watch': [op, base], 'dom': list(dom), 'rng': list(rng_shape) if rng_shape is not None else None,
                **(extra or {})}
    return build


def lin_run(ctx, call, own, tag):
    op, a, name = ctx['op'], call['arg'], call['call']
    in_dom = name in ('forward', 'H_adjoint', 'gram', 'operator_norm')
    core = ctx['dom'] if in_dom else ctx['rng']
    if core is None:
        raise ValueError('range shape unknown')
    pre = ctx.get('batch_pos', 0)
    shape = list(a['batch']) + list(core) if pre == 0 else list(core[:pre]) + list(a['batch']) + list(core[pre:])
    x = make_tensor({'shape': shape, 'dtype': a['dtype'], 'kind': a['kind'], 'seed': a['seed']}, own, f'{tag}.x')
    _fire(ctx)
    if name == 'forward':
        return op(x)
    if name == 'adjoint':
        return op.adjoint(x)
    if name == 'H_forward':
        return op.H(x)
    if name == 'H_adjoint':
        return op.H.adjoint(x)
    if name == 'gram':
        return op.gram(x)
    if name == 'H_gram':
        return op.H.gram(x)
    if name == 'operator_norm':
        return op.operator_norm(x, dim=None, max_iterations=a.get('iters', 2))
    raise KeyError(name)


def add_linop(name, cfg_fn, builder, weight=1.0, wraps=True, max_len=None):
    def cfg(rng, dt):
        c = cfg_fn(rng, dt)
        if wraps and 'wrap' not in c:
            c['wrap'] = rng.choice(WRAPS)
        return c
    TARGETS[name] = Target(name, cfg, lin_build(builder), lin_gen_call, lin_run, weight, max_len)


# -- EinsumOp ------------------------------------------------------------------------------------
def _cfg_einsum(rng, dt):
    i, j = rng.randint(1, 4), rng.randint(1, 4)
    b = rng.choice([[], [], [2], [3]])
    return {'mshape': b + [i, j], 'mkind': rng.choice(KINDS), 'batches': [[], [2], [3]] if not b else [[], [2]]}


def _b_einsum(cfg, dt, seed, own):
    from mrpro.operators import EinsumOp
    m = make_tensor({'shape': cfg['mshape'], 'dtype': dt, 'kind': cfg['mkind'], 'seed': seed}, own, 'ctor.matrix')
    ms = cfg['mshape']
    return EinsumOp(m), ms[:-2] + [ms[-1]], ms[:-2] + [ms[-2]], None


add_linop('EinsumOp', _cfg_einsum, _b_einsum, weight=3)


# -- FastFourierOp -------------------------------------------------------------------------------
def _cfg_fft(rng, dt):
    nd = rng.randint(1, 3)
    dim = sorted(rng.sample([-3, -2, -1], nd))
    if rng.random() < 0.5:
        rec = [rng.randint(2, 5) for _ in dim]
        enc = [rng.choice([r, r + 1, r + 2, max(1, r - 1)]) for r in rec]
    else:
        rec = enc = None
    shape3 = [rng.randint(2, 5) for _ in range(3)]
    return {'dim': dim, 'rec': rec, 'enc': enc, 'shape3': shape3, 'batches': [[], [2], [1, 2]]}


def _b_fft(cfg, dt, seed, own):
    from mrpro.operators import FastFourierOp
    op = FastFourierOp(dim=tuple(cfg['dim']), recon_matrix=cfg['rec'], encoding_matrix=cfg['enc'])
    dom, rg = list(cfg['shape3']), list(cfg['shape3'])
    if cfg['rec'] is not None:
        for d, r, e in zip(cfg['dim'], cfg['rec'], cfg['enc']):
            dom[d], rg[d] = r, e
    return op, dom, rg, None


add_linop('FastFourierOp', _cfg_fft, _b_fft, weight=2)


# -- trajectories used by FourierOp / CartesianSamplingOp --------------------------------------------
def _traj(kind, cfg, seed, own, name='ctor.traj'):
    from mrpro.data import KTrajectory
    g = torch.Generator().manual_seed(seed + 5)
    ny, nx = cfg['ny'], cfg['nx']
    if kind == 'cart':
        kx = (torch.arange(nx) - nx // 2).to(torch.float32).reshape(1, 1, 1, nx)
        lines = cfg.get('lines') or list(range(ny))
        ky = (torch.tensor(lines) - ny // 2).to(torch.float32).reshape(1, 1, len(lines), 1)
        kz = torch.zeros(1, 1, 1, 1)
    else:  # radial, 2D
        nsp = cfg['spokes']
        ang = torch.arange(nsp).to(torch.float32) * (math.pi / nsp) + 0.1
        rad = (torch.arange(nx) - nx // 2).to(torch.float32) * (min(ny, nx) / nx) * 0.9 + 0.05
        kx = (rad[None, :] * torch.cos(ang)[:, None]).reshape(1, 1, nsp, nx)
        ky = (rad[None, :] * torch.sin(ang)[:, None]).reshape(1, 1, nsp, nx)
        kz = torch.zeros(1, 1, 1, 1)
    del g
    own(name + '.kz', kz), own(name + '.ky', ky), own(name + '.kx', kx)
    return own(name, KTrajectory(kz, ky, kx))


def _cfg_fourier_cart(rng, dt):
    ny, nx = rng.randint(2, 6), rng.randint(2, 6)
    lines = sorted(rng.sample(range(ny), rng.randint(2, ny))) if rng.random() < 0.6 else None
    if lines and rng.random() < 0.3:
        rng.shuffle(lines)
    pad = rng.random() < 0.4
    return {'ny': ny, 'nx': nx, 'lines': lines, 'ry': ny - (1 if pad and ny > 2 else 0), 'rx': nx - (1 if pad and nx > 2 else 0),
            'coils': rng.randint(1, 2), 'batches': [[1], [2]], 'dtypes': ['c64', 'c128'], '_dtype': CPLX_OF[dt]}


def _b_fourier_cart(cfg, dt, seed, own):
    from mrpro.data import SpatialDimension
    from mrpro.operators import FourierOp
    traj = _traj('cart', cfg, seed, own)
    rec = own('ctor.recon_matrix', SpatialDimension(1, cfg['ry'], cfg['rx']))
    enc = own('ctor.encoding_matrix', SpatialDimension(1, cfg['ny'], cfg['nx']))
    op = FourierOp(rec, enc, traj)
    nl = len(cfg['lines']) if cfg['lines'] else cfg['ny']
    return op, [cfg['coils'], 1, cfg['ry'], cfg['rx']], [cfg['coils'], 1, nl, cfg['nx']], None


add_linop('FourierOp:cartesian', _cfg_fourier_cart, _b_fourier_cart, weight=2)


def _cfg_fourier_radial(rng, dt):
    n = rng.choice([4, 6, 8])
    return {'ny': n, 'nx': n, 'spokes': rng.randint(2, 4), 'coils': rng.randint(1, 2), 'batches': [[1], [2]],
            'dtypes': ['c64'], '_dtype': 'c64', 'calls': ['forward', 'adjoint', 'H_forward', 'gram', 'forward', 'adjoint'],
            'wrap': rng.choice(['none', 'none', 'scalar_left', 'normal'])}


def _b_fourier_radial(cfg, dt, seed, own):
    from mrpro.data import SpatialDimension
    from mrpro.operators import FourierOp
    traj = _traj('radial', cfg, seed, own)
    rec = own('ctor.recon_matrix', SpatialDimension(1, cfg['ny'], cfg['nx']))
    enc = own('ctor.encoding_matrix', SpatialDimension(1, cfg['ny'], cfg['nx']))
    op = FourierOp(rec, enc, traj)
    return op, [cfg['coils'], 1, cfg['ny'], cfg['nx']], [cfg['coils'], 1, cfg['spokes'], cfg['nx']], None


add_linop('FourierOp:radial', _cfg_fourier_radial, _b_fourier_radial, weight=1, max_len=5)


def _cfg_cartsamp(rng, dt):
    c = _cfg_fourier_cart(rng, dt)
    c.pop('_dtype')
    c['dtypes'] = None
    c['batches'] = [[1], [2], [2, 1]]
    return c


def _b_cartsamp(cfg, dt, seed, own):
    from mrpro.data import SpatialDimension
    from mrpro.operators import CartesianSamplingOp
    traj = _traj('cart', cfg, seed, own)
    enc = own('ctor.encoding_matrix', SpatialDimension(1, cfg['ny'], cfg['nx']))
    op = CartesianSamplingOp(enc, traj)
    nl = len(cfg['lines']) if cfg['lines'] else cfg['ny']
    return op, [cfg['coils'], 1, cfg['ny'], cfg['nx']], [cfg['coils'], 1, nl, cfg['nx']], None


add_linop('CartesianSamplingOp', _cfg_cartsamp, _b_cartsamp, weight=1.5)


# -- ZeroPadOp / FiniteDifferenceOp / WaveletOp / IdentityOp / RearrangeOp ---------------------------------
def _cfg_zeropad(rng, dt):
    nd = rng.randint(1, 3)
    shape = [rng.randint(1, 5) for _ in range(nd)]
    k = rng.randint(1, nd)
    axes = sorted(rng.sample(range(nd), k))
    return {'shape': shape, 'dim': [a - nd if rng.random() < 0.5 else a for a in axes], 'axes': axes,
            'padded': [rng.randint(1, 7) for _ in axes], 'batches': [[]]}


def _b_zeropad(cfg, dt, seed, own):
    from mrpro.operators import ZeroPadOp
    orig = [cfg['shape'][a] for a in cfg['axes']]
    op = ZeroPadOp(dim=cfg['dim'], original_shape=orig, padded_shape=cfg['padded'])
    rg = list(cfg['shape'])
    for a, p in zip(cfg['axes'], cfg['padded']):
        rg[a] = p
    return op, cfg['shape'], rg, None


add_linop('ZeroPadOp', _cfg_zeropad, _b_zeropad)


def _cfg_findiff(rng, dt):
    nd = rng.randint(2, 3)
    shape = [rng.randint(2, 5) for _ in range(nd)]
    dim = sorted(rng.sample(range(-nd, 0), rng.randint(1, nd)))
    return {'shape': shape, 'dim': dim, 'mode': rng.choice(['central', 'forward', 'backward']),
            'pad_mode': rng.choice(['zeros', 'circular']), 'batches': [[]]}


def _b_findiff(cfg, dt, seed, own):
    from mrpro.operators import FiniteDifferenceOp
    op = FiniteDifferenceOp(dim=tuple(cfg['dim']), mode=cfg['mode'], pad_mode=cfg['pad_mode'])
    return op, cfg['shape'], [len(cfg['dim'])] + cfg['shape'], None


add_linop('FiniteDifferenceOp', _cfg_findiff, _b_findiff)


def _cfg_wavelet(rng, dt):
    nd = rng.randint(1, 2)
    return {'shape': [rng.choice([4, 6, 8]) for _ in range(nd)], 'wavelet': rng.choice(['haar', 'db2']),
            'with_domain_shape': rng.random() < 0.9, 'batches': [[], [2]],
            'calls': ['forward', 'forward', 'adjoint', 'H_forward', 'gram', 'operator_norm']}


def _b_wavelet(cfg, dt, seed, own):
    from mrpro.operators import WaveletOp
    nd = len(cfg['shape'])

    op = WaveletOp(domain_shape=cfg['shape'] if cfg['with_domain_shape'] else None, dim=tuple(range(-nd, 0)),
                   wavelet_name=cfg['wavelet'], level=1)
    return op, cfg['shape'], None, None


add_linop('WaveletOp', _cfg_wavelet, _b_wavelet)


def _cfg_identity(rng, dt):
    return {'shape': [rng.randint(1, 4) for _ in range(rng.randint(1, 3))], 'batches': [[], [2]]}


def _b_identity(cfg, dt, seed, own):
    from mrpro.operators import IdentityOp
    return IdentityOp(), cfg['shape'], cfg['shape'], None


add_linop('IdentityOp', _cfg_identity, _b_identity, weight=0.7)


def _cfg_rearrange(rng, dt):
    return {'shape': [rng.randint(1, 4), rng.randint(1, 4), 2], 'batches': [[]]}


def _b_rearrange(cfg, dt, seed, own):
    from mrpro.operators.RearrangeOp import RearrangeOp
    a, b, c = cfg['shape']
    return RearrangeOp('a b c -> c (b a)', additional_info={'a': a, 'b': b}), [a, b, c], [c, a * b], None


add_linop('RearrangeOp', _cfg_rearrange, _b_rearrange, weight=0.7)


# -- SensitivityOp / DensityCompensationOp / PCACompressionOp ----------------------------------------------
def _cfg_sens(rng, dt):
    return {'coils': rng.randint(1, 3), 'zyx': [rng.randint(1, 2), rng.randint(1, 4), rng.randint(1, 4)],
            'as_data': rng.random() < 0.4, 'mkind': rng.choice(KINDS), 'batches': [[], [2]], '_dtype': CPLX_OF[dt]}


def _b_sens(cfg, dt, seed, own):
    from mrpro.operators import SensitivityOp
    shape = [cfg['coils']] + cfg['zyx']
    if cfg['as_data']:
        from mrpro.data import CsmData
        data = make_tensor({'shape': [1] + shape, 'dtype': dt, 'kind': cfg['mkind'], 'seed': seed}, own, 'ctor.csm.data')
        kd, _ = make_kdata({'n_other': 1, 'n_coils': 1, 'n_k2': 1, 'n_k1': 2, 'n_k0': 2}, seed, lambda n, x: x)
        csm = own('ctor.csm', CsmData(data, kd.header))
        return SensitivityOp(csm), [1] + [1] + cfg['zyx'], [1] + shape, {'batch_pos': 0, 'nobatch': True}
    csm = make_tensor({'shape': shape, 'dtype': dt, 'kind': cfg['mkind'], 'seed': seed}, own, 'ctor.csm')
    return SensitivityOp(csm), [1] + cfg['zyx'], shape, None


add_linop('SensitivityOp', _cfg_sens, _b_sens, weight=2.5)


def _cfg_dcfop(rng, dt):
    return {'k': [rng.randint(1, 2), rng.randint(1, 4), rng.randint(1, 4)], 'coils': rng.randint(1, 3),
            'as_data': rng.random() < 0.4, 'mkind': rng.choice(KINDS), 'batches': [[], [2]]}


def _b_dcfop(cfg, dt, seed, own):
    from mrpro.operators import DensityCompensationOp
    d = make_tensor({'shape': cfg['k'], 'dtype': REAL_OF[dt], 'kind': cfg['mkind'], 'seed': seed, 'lo': 1, 'hi': 8}, own,
                    'ctor.dcf')
    if cfg['as_data']:
        from mrpro.data import DcfData
        d = own('ctor.dcfdata', DcfData(d))
    return DensityCompensationOp(d), [cfg['coils']] + cfg['k'], [cfg['coils']] + cfg['k'], None


add_linop('DensityCompensationOp', _cfg_dcfop, _b_dcfop)


def _cfg_pca(rng, dt):
    comp = rng.randint(2, 4)
    return {'joint': rng.randint(3, 6), 'comp': comp, 'n': rng.randint(1, comp), 'mkind': rng.choice(KINDS),
            'rows': rng.randint(1, 3), 'batches': [[], [2]]}


def _b_pca(cfg, dt, seed, own):
    from mrpro.operators import PCACompressionOp
    d = make_tensor({'shape': [cfg['joint'], cfg['comp']], 'dtype': dt, 'kind': cfg['mkind'], 'seed': seed}, own, 'ctor.data')
    return PCACompressionOp(d, cfg['n']), [cfg['rows'], cfg['comp']], [cfg['rows'], cfg['n']], None


add_linop('PCACompressionOp', _cfg_pca, _b_pca)


# -- GridSamplingOp / SliceProjectionOp ------------------------------------------------------------------
def _cfg_grid(rng, dt):
    d3 = rng.random() < 0.3
    return {'d3': d3, 'in': [rng.randint(2, 4) for _ in range(3)], 'out': [rng.randint(1, 3) for _ in range(3)],
            'gb': rng.choice([1, 2]), 'mode': rng.choice(['bilinear', 'nearest'] + ([] if d3 else ['bicubic'])),
            'padding': rng.choice(['zeros', 'border', 'reflection']), 'align': rng.random() < 0.5,
            'mkind': rng.choice(['plain', 'view', 'noncontig']), 'batches': [[]], 'chan': rng.randint(1, 2),
            'dtypes': ['f32', 'f64', 'c64', 'c128']}


def _b_grid(cfg, dt, seed, own):
    from mrpro.data import SpatialDimension
    from mrpro.operators import GridSamplingOp
    nd = 3 if cfg['d3'] else 2
    gshape = [cfg['gb']] + cfg['out'][-nd:] + [nd]
    grid = make_tensor({'shape': gshape, 'dtype': REAL_OF[dt], 'kind': cfg['mkind'], 'seed': seed, 'lo': -4, 'hi': 4}, own,
                       'ctor.grid')
    ishape = own('ctor.input_shape', SpatialDimension(*cfg['in']))
    op = GridSamplingOp(grid, ishape, interpolation_mode=cfg['mode'], padding_mode=cfg['padding'], align_corners=cfg['align'])
    dom = [cfg['gb'], cfg['chan']] + cfg['in'][-nd:]
    rg = [cfg['gb'], cfg['chan']] + cfg['out'][-nd:]
    return op, dom, rg, None


add_linop('GridSamplingOp', _cfg_grid, _b_grid)


def _cfg_slice(rng, dt):
    n = rng.choice([3, 4])
    return {'n': n, 'shift': rng.choice([None, 'float', 'tensor']), 'width': rng.choice([1.0, 2.0]), 'rot': rng.random() < 0.4,
            'optimize_for': rng.choice(['forward', 'adjoint', 'both']), 'batches': [[]], 'dtypes': ['f32', 'c64'],
            '_dtype': {'f64': 'f32', 'c128': 'c64'}.get(dt, dt),
            'calls': ['forward', 'adjoint', 'H_forward', 'forward', 'adjoint', 'gram'],
            'wrap': rng.choice(['none', 'none', 'scalar_left', 'adj'])}


def _b_slice(cfg, dt, seed, own):
    from mrpro.data import SpatialDimension
    from mrpro.operators import SliceProjectionOp
    n = cfg['n']
    ishape = own('ctor.input_shape', SpatialDimension(n, n, n))
    kw = {}
    if cfg['shift'] == 'float':
        kw['slice_shift'] = 0.5
    elif cfg['shift'] == 'tensor':
        kw['slice_shift'] = own('ctor.slice_shift', torch.tensor([-0.5, 1.0]))
    if cfg.get('rot'):
        from mrpro.data import Rotation
        rv = own('ctor.rotvec', torch.tensor([0.25, -0.5, 0.125]))
        kw['slice_rotation'] = own('ctor.slice_rotation', Rotation.from_rotvec(rv))
    op = SliceProjectionOp(ishape, slice_profile=cfg['width'], optimize_for=cfg['optimize_for'], **kw)
    return op, [n, n, n], None, None


add_linop('SliceProjectionOp', _cfg_slice, _b_slice, max_len=5)


# -- LinearOperatorMatrix --------------------------------------------------------------------------------
def _cfg_opmatrix(rng, dt):
    return {'rows': rng.randint(1, 2), 'cols': rng.randint(1, 2), 'n': [rng.randint(1, 3) for _ in range(2)],
            'm': [rng.randint(1, 3) for _ in range(2)], 'mkind': rng.choice(KINDS), 'how': rng.choice(['ctor', 'stack', 'scaled'])}


def _build_opmatrix(case, own):
    import mrpro.operators as ops
    c, dt = case['cfg'], case['dtype']
    es = [[ops.EinsumOp(make_tensor({'shape': [c['m'][i], c['n'][j]], 'dtype': dt, 'kind': c['mkind'], 'seed': case['seed'] + 7 * i + j},
                                    own, f'ctor.matrix{i}{j}')) for j in range(c['cols'])] for i in range(c['rows'])]
    if c['how'] == 'stack' and c['rows'] == 2 and c['cols'] == 2:
        op = (es[0][0] | es[0][1]) & (es[1][0] | es[1][1])
    else:
        op = ops.LinearOperatorMatrix(es)
    if c['how'] == 'scaled':
        op = 2.0 * op
    return {'op': op, 'watch': [op] + [e for r in es for e in r]}


def _gen_opmatrix(rng, cfg, dt, tier):
    call = rng.choice(['forward', 'forward', 'adjoint', 'H_forward', 'operator_norm'])
    dom = call in ('forward', 'operator_norm')
    k = cfg['cols'] if dom else cfg['rows']
    sizes = cfg['n'] if dom else cfg['m']
    b = rng.choice([[], [], [2]])
    adt = other_dt(rng, dt, 0.15) if call != 'operator_norm' else {'f64': 'f32', 'c128': 'c64'}.get(dt, dt)
    return _multi_call(rng, [call], k, [b + [sizes[i]] for i in range(k)], adt)


def _run_opmatrix(ctx, call, own, tag):
    xs = _multi_args(call['arg'], own, tag, ctx)
    op, name = ctx['op'], call['call']
    if name == 'adjoint':
        return op.adjoint(*xs)
    if name == 'H_forward':
        return op.H(*xs)
    if name == 'operator_norm':
        return op.operator_norm(*xs, dim=None, max_iterations=2)
    return op(*xs)


LINOP_NAMES = [k for k in TARGETS] + ['LinearOperatorMatrix']


# ------------------------------------------------------------------------------------------------
# non-linear operators and signal models
# ------------------------------------------------------------------------------------------------
def _multi_args(a, own, tag, ctx):
    xs = []
    for k, (kind, sh) in enumerate(zip(a['kinds'], a['shapes'])):
        xs.append(make_tensor({'shape': sh, 'dtype': a['dtype'], 'kind': kind, 'seed': a['seed'] + k,
                               'lo': a.get('lo', -8), 'hi': a.get('hi', 8)}, own, f'{tag}.x{k}'))
    _fire(ctx)
    return xs


def _multi_call(rng, names, n, shapes, dt, **kw):
    kinds = [rng.choice(KINDS) for _ in range(n)]
    return {'call': rng.choice(names), 'arg': {'kinds': kinds, 'kind': '+'.join(sorted(set(kinds))), 'shapes': shapes,
                                               'dtype': dt, 'seed': rng.randrange(10 ** 6), **kw}}


_BOUNDS = [[None, None], [0.0, None], [None, 1.0], [-1.0, 2.0], [0.5, 3.0], [-2.0, None]]


def _cfg_constraints(rng, dt):
    n = rng.randint(1, 3)
    return {'bounds': [rng.choice(_BOUNDS) for _ in range(n)], 'beta_sigmoid': rng.choice([1.0, 2.0, 0.5]),
            'beta_softplus': rng.choice([1.0, 2.0, 0.5]), 'extra': rng.random() < 0.3, '_dtype': REAL_OF[dt]}


def _build_constraints(case, own):
    from mrpro.operators import ConstraintsOp
    c = case['cfg']
    op = ConstraintsOp([tuple(b) for b in c['bounds']], c['beta_sigmoid'], c['beta_softplus'])
    return {'op': op, 'watch': [op]}


def _gen_constraints(rng, cfg, dt, tier):
    n = len(cfg['bounds']) + (1 if cfg['extra'] else 0)
    shape = [rng.randint(1, 4) for _ in range(rng.randint(0, 2))]
    return _multi_call(rng, ['forward', 'forward', 'inverse'], n, [shape] * n, other_dt(rng, dt, 0.2) if rng.random() < 0.9 else dt)


def _run_multi(ctx, call, own, tag):
    xs = _multi_args(call['arg'], own, tag, ctx)
    op = ctx['op']
    if call['call'] == 'inverse':
        return op.inverse(*xs)
    return op(*xs)


TARGETS['LinearOperatorMatrix'] = Target('LinearOperatorMatrix', _cfg_opmatrix, _build_opmatrix, _gen_opmatrix, _run_opmatrix, 1.0)
TARGETS['ConstraintsOp'] = Target('ConstraintsOp', _cfg_constraints, _build_constraints, _gen_constraints, _run_multi, 1.5)


def _cfg_magphase(which):
    def cfg(rng, dt):
        return {'n': rng.randint(1, 3)}

    def build(case, own):
        import mrpro.operators as ops
        op = getattr(ops, which)()
        return {'op': op, 'watch': [op]}

    def gen_call(rng, cfg, dt, tier):
        shape = [rng.randint(1, 4) for _ in range(rng.randint(0, 3))]
        return _multi_call(rng, ['forward'], cfg['n'], [shape] * cfg['n'], other_dt(rng, dt, 0.4))
    TARGETS[which] = Target(which, cfg, build, gen_call, _run_multi, 0.6)


_cfg_magphase('MagnitudeOp')
_cfg_magphase('PhaseOp')

MODELS = {  # name -> (constructor tensor arguments (name, is time axis), number of forward parameters)
    'InversionRecovery': (['ti'], 2), 'SaturationRecovery': (['ti'], 2), 'MonoExponentialDecay': (['decay_time'], 2),
    'MOLLI': (['ti'], 3), 'WASABI': (['offsets'], 4), 'WASABITI': (['offsets', 'trec'], 3),
    'TransientSteadyStateWithPreparation': (['sampling_time'], 3),
}


def _add_model(name):
    ctor, npar = MODELS[name]

    def cfg(rng, dt):
        c = {'T': rng.randint(1, 4), 'kinds': [rng.choice(KINDS) for _ in ctor], 'constrained': rng.random() < 0.25,
             'scalar_form': rng.choice(['float', 'tensor']), '_dtype': REAL_OF[dt]}
        return c

    def build(case, own):
        import mrpro.operators as ops
        from mrpro.operators import models
        c, dt = case['cfg'], case['dtype']
        args = [make_tensor({'shape': [c['T']], 'dtype': dt, 'kind': k, 'seed': case['seed'] + i, 'lo': 1, 'hi': 8}, own,
                            f'ctor.{n}') for i, (n, k) in enumerate(zip(ctor, c['kinds']))]
        kw = {}
        if name == 'TransientSteadyStateWithPreparation':
            if c['scalar_form'] == 'tensor':
                kw = {'repetition_time': own('ctor.repetition_time', torch.tensor(0.5, dtype=DT[dt])),
                      'm0_scaling_preparation': own('ctor.m0_scaling_preparation', torch.tensor(-1.0, dtype=DT[dt])),
                      'delay_after_preparation': own('ctor.delay_after_preparation', torch.tensor(0.25, dtype=DT[dt]))}
            else:
                kw = {'repetition_time': 0.5, 'm0_scaling_preparation': -1.0, 'delay_after_preparation': 0.25}
        elif name in ('WASABI', 'WASABITI') and c['scalar_form'] == 'tensor':
            kw = {'tp': own('ctor.tp', torch.tensor(0.005, dtype=DT[dt])), 'b1_nom': own('ctor.b1_nom', torch.tensor(3.75, dtype=DT[dt]))}
        model = getattr(models, name)(*args, **kw)
        op = model
        if c['constrained']:
            op = model @ ops.ConstraintsOp([(0.0, None)] * npar)
        return {'op': op, 'watch': [op, model]}

    def gen_call(rng, cfg, dt, tier):
        shape = [rng.randint(1, 3) for _ in range(rng.randint(1, 2))]
        shapes = [shape] * npar
        if rng.random() < 0.3:  # broadcasting between the parameters
            shapes = [shape if rng.random() < 0.5 else [1] * (len(shape) - 1) + [shape[-1]] for _ in range(npar)]
        adt = dt if rng.random() < 0.8 else rng.choice(['f32', 'f64', 'c64'])
        return _multi_call(rng, ['forward'], npar, shapes, adt, lo=1, hi=6)
    TARGETS[name] = Target(name, cfg, build, gen_call, _run_multi, 1.0)


for _m in MODELS:
    _add_model(_m)
NONLIN_NAMES = [k for k in TARGETS if k not in LINOP_NAMES]


# ------------------------------------------------------------------------------------------------
# functionals
# ------------------------------------------------------------------------------------------------
SIGMA_FORMS = ['py', 'py', '0dim', '0dim', '1elem', '1elem', 'broadcast', 'broadcast', 'full', 'expanded', 'view']
SIGMA_VALUES = ['normal', 'normal', 'tiny', 'tiny', 'zero', 'mixed', 'mixed']
_TINY = [1e-10, 1e-9, 1e-12, 0.0, 9e-9]


def sigma_spec(rng):
    return {'form': rng.choice(SIGMA_FORMS), 'values': rng.choice(SIGMA_VALUES), 'seed': rng.randrange(10 ** 6),
            'v': rng.choice([0.25, 0.5, 1.0, 2.0]), 'tiny': rng.choice(_TINY)}


def make_sigma(spec, xshape, rdt, own, name):
    """sigma as python number, 0-dim / 1-element / broadcastable / full / expanded / view tensor; often tiny or zero."""
    form, vals = spec['form'], spec['values']
    scalar = {'normal': spec['v'], 'tiny': spec['tiny'], 'zero': 0.0, 'mixed': spec['tiny']}[vals]
    if form == 'py':
        return int(scalar) if float(scalar).is_integer() and scalar >= 1 and spec['seed'] % 2 else float(scalar)
    dtype = DT[rdt]
    if form == '0dim':
        return own(name, torch.tensor(scalar, dtype=dtype))
    if form == '1elem':
        return own(name, torch.tensor([scalar], dtype=dtype))
    g = torch.Generator().manual_seed(spec['seed'])
    xshape = list(xshape)
    if form == 'expanded':
        base = own(name + '.base', torch.tensor([scalar], dtype=dtype).reshape([1] * max(len(xshape), 1)))
        return own(name, base.expand(xshape if xshape else [1]))
    if form == 'broadcast' and xshape:
        shape = [1] * len(xshape)
        shape[-1] = xshape[-1]
    else:
        shape = xshape if xshape else [1]

    def values(shape):
        t = torch.randint(1, 9, shape, generator=g).to(dtype) * 0.25
        if vals in ('tiny', 'zero'):
            t = torch.full(shape, scalar, dtype=dtype)
        elif vals == 'mixed':
            mask = torch.rand(shape, generator=g) < 0.5
            t = torch.where(mask, torch.tensor(scalar, dtype=dtype), t)
        return t
    if form == 'view':
        big = list(shape)
        big[-1] += 2
        base = own(name + '.base', values(big))
        return own(name, base[..., 1:-1])
    return own(name, values(shape))


def _cfg_functional(cls):
    def cfg(rng, dt):
        nd = rng.randint(1, 3)
        shape = [rng.randint(1, 4) for _ in range(nd)]
        dim = rng.choice([None, None, [-1], sorted(rng.sample(range(nd), rng.randint(1, nd)))])
        return {'shape': shape, 'target': rng.choice(['none', 'scalar', 'tensor', 'tensor', 'broadcast']),
                'weight': rng.choice(['float', 'float', 'tensor', 'tensor0', 'broadcast']), 'tkind': rng.choice(KINDS),
                'wkind': rng.choice(KINDS), 'dim': dim, 'divide_by_n': rng.random() < 0.4, 'keepdim': rng.random() < 0.6,
                'scaled': rng.choice(['no', 'no', 'no', 'float', 'tensor'])}
    return cfg


def _mk_functional(cls, c, dt, seed, own, prefix='ctor'):
    from mrpro.operators import functionals
    shape = c['shape']
    kw = {'dim': c['dim'], 'divide_by_n': c['divide_by_n'], 'keepdim': c['keepdim']}
    if c['target'] == 'scalar':
        kw['target'] = 0.5
    elif c['target'] in ('tensor', 'broadcast'):
        sh = shape if c['target'] == 'tensor' else [1] * (len(shape) - 1) + [shape[-1]]
        kw['target'] = make_tensor({'shape': sh, 'dtype': dt, 'kind': c['tkind'], 'seed': seed + 1}, own, f'{prefix}.target')
    if c['weight'] == 'float':
        kw['weight'] = 2.0
    elif c['weight'] == 'tensor0':
        kw['weight'] = own(f'{prefix}.weight', torch.tensor(0.5, dtype=DT[REAL_OF[dt]]))
    else:
        sh = shape if c['weight'] == 'tensor' else [1] * (len(shape) - 1) + [shape[-1]]
        kw['weight'] = make_tensor({'shape': sh, 'dtype': REAL_OF[dt], 'kind': c['wkind'], 'seed': seed + 2, 'lo': 1, 'hi': 8}, own,
                                   f'{prefix}.weight')
    f = getattr(functionals, cls)(**kw)
    base = f
    if c['scaled'] == 'float':
        f = 2.0 * f
    elif c['scaled'] == 'tensor':
        f = own(f'{prefix}.scale', torch.tensor(0.5, dtype=DT[REAL_OF[dt]])) * f
    return f, base


def _add_functional(cls):
    def build(case, own):
        f, base = _mk_functional(cls, case['cfg'], case['dtype'], case['seed'], own)
        return {'op': f, 'watch': [f, base], 'shape': case['cfg']['shape']}

    def gen_call(rng, cfg, dt, tier):
        call = rng.choice(['forward', 'prox', 'prox', 'prox_convex_conj', 'prox_convex_conj', 'prox_convex_conj'])
        arg = {'kind': rng.choice(KINDS), 'dtype': other_dt(rng, dt, 0.2), 'seed': rng.randrange(10 ** 6),
               'batch': rng.choice([[], [], [2]]) if cfg['dim'] is None or all(d < 0 for d in cfg['dim']) else []}
        if call != 'forward':
            arg['sigma'] = sigma_spec(rng)
        return {'call': call, 'arg': arg}

    def run(ctx, call, own, tag):
        a = call['arg']
        shape = list(a['batch']) + list(ctx['shape'])
        x = make_tensor({'shape': shape, 'dtype': a['dtype'], 'kind': a['kind'], 'seed': a['seed']}, own, f'{tag}.x')
        if call['call'] == 'forward':
            _fire(ctx)
            return ctx['op'](x)
        sigma = make_sigma(a['sigma'], shape, REAL_OF[a['dtype']], own, f'{tag}.sigma')
        _fire(ctx)
        return getattr(ctx['op'], call['call'])(x, sigma)
    TARGETS[cls] = Target(cls, _cfg_functional(cls), build, gen_call, run, 2.0 if cls == 'L1NormViewAsReal' else 1.0)


FUNCTIONALS = ['L1Norm', 'L1NormViewAsReal', 'L2NormSquared', 'MSE', 'ZeroFunctional']
for _f in FUNCTIONALS:
    _add_functional(_f)


def _cfg_sepsum(rng, dt):
    n = rng.randint(2, 3)
    return {'parts': [dict(_cfg_functional(None)(rng, dt), cls=rng.choice(FUNCTIONALS), scaled='no') for _ in range(n)]}


def _build_sepsum(case, own):
    from mrpro.operators import ProximableFunctionalSeparableSum
    fs = [_mk_functional(p['cls'], p, case['dtype'], case['seed'] + 10 * i, own, f'ctor.f{i}')[0]
          for i, p in enumerate(case['cfg']['parts'])]
    how = case['seed'] % 2
    op = ProximableFunctionalSeparableSum(*fs) if how else (fs[0] | fs[1] if len(fs) == 2 else (fs[0] | fs[1]) | fs[2])
    return {'op': op, 'watch': [op] + fs, 'shapes': [p['shape'] for p in case['cfg']['parts']]}


def _gen_sepsum(rng, cfg, dt, tier):
    n = len(cfg['parts'])
    kinds = [rng.choice(KINDS) for _ in range(n)]
    call = rng.choice(['forward', 'prox', 'prox_convex_conj', 'prox_convex_conj'])
    arg = {'kinds': kinds, 'kind': '+'.join(sorted(set(kinds))), 'dtype': dt, 'seed': rng.randrange(10 ** 6)}
    if call != 'forward':
        arg['sigma'] = sigma_spec(rng)
        if arg['sigma']['form'] not in ('py', '0dim', '1elem'):
            arg['sigma']['form'] = rng.choice(['py', '0dim', '1elem', '0dim', '1elem'])
    return {'call': call, 'arg': arg}


def _run_sepsum(ctx, call, own, tag):
    a = call['arg']
    xs = [make_tensor({'shape': sh, 'dtype': a['dtype'], 'kind': k, 'seed': a['seed'] + i}, own, f'{tag}.x{i}')
          for i, (sh, k) in enumerate(zip(ctx['shapes'], a['kinds']))]
    if call['call'] == 'forward':
        _fire(ctx)
        return ctx['op'](*xs)
    sigma = make_sigma(a['sigma'], [], REAL_OF[a['dtype']], own, f'{tag}.sigma')
    _fire(ctx)
    return getattr(ctx['op'], call['call'])(*xs, sigma=sigma)


TARGETS['ProximableFunctionalSeparableSum'] = Target('ProximableFunctionalSeparableSum', _cfg_sepsum, _build_sepsum, _gen_sepsum,
                                                     _run_sepsum, 1.5)
FUNC_NAMES = FUNCTIONALS + ['ProximableFunctionalSeparableSum']


# ------------------------------------------------------------------------------------------------
# optimisers
# ------------------------------------------------------------------------------------------------
def _cfg_opt(rng, dt):
    n, m = rng.randint(1, 4), rng.randint(1, 4)
    return {'n': n, 'm': m, 'mkind': rng.choice(KINDS), 'lam': rng.choice([0.25, 1.0]), 'batch': rng.choice([[], [], [2]]),
            'op': rng.choice(['einsum', 'einsum', 'identity', 'scaled_identity'])}


def _normal_op(cfg, dt, seed, own):
    """Self-adjoint positive operator H = A^H A + lam I (A caller-owned matrix), or (scaled) identity."""
    import mrpro.operators as ops
    if cfg['op'] == 'identity':
        return ops.IdentityOp(), None
    if cfg['op'] == 'scaled_identity':
        return 2.0 * ops.IdentityOp(), None
    a = make_tensor({'shape': [cfg['m'], cfg['n']], 'dtype': dt, 'kind': cfg['mkind'], 'seed': seed}, own, 'ctor.matrix')
    e = ops.EinsumOp(a)
    return e.H @ e + cfg['lam'] * ops.IdentityOp(), e


def _build_cg(case, own):
    h, e = _normal_op(case['cfg'], case['dtype'], case['seed'], own)
    return {'op': h, 'watch': [h, e], 'shape': case['cfg']['batch'] + [case['cfg']['n']]}


def _gen_cg(rng, cfg, dt, tier):
    return {'call': 'cg', 'arg': {'init': rng.choice(['none', 'given', 'given', 'rhs_itself', 'zeros']), 'iters': rng.randint(1, 4),
                                  'kind': rng.choice(KINDS), 'ikind': rng.choice(KINDS), 'dtype': dt if rng.random() < 0.85 else other_dt(rng, dt, 1.0),
                                  'tol': rng.choice([0.0, 1e-4]), 'callback': rng.random() < 0.4, 'seed': rng.randrange(10 ** 6)}}


def _run_cg(ctx, call, own, tag):
    from mrpro.algorithms.optimizers import cg
    a = call['arg']
    b = make_tensor({'shape': ctx['shape'], 'dtype': a['dtype'], 'kind': a['kind'], 'seed': a['seed']}, own, f'{tag}.right_hand_side')
    x0 = None
    if a['init'] == 'given':
        x0 = make_tensor({'shape': ctx['shape'], 'dtype': a['dtype'], 'kind': a['ikind'], 'seed': a['seed'] + 1}, own, f'{tag}.initial_value')
    elif a['init'] == 'zeros':
        x0 = own(f'{tag}.initial_value', torch.zeros(ctx['shape'], dtype=DT[a['dtype']]))
    elif a['init'] == 'rhs_itself':
        x0 = b
    seen = []

    def cb(status):
        seen.append((int(status['iteration_number']), status['solution'][0].detach().clone(), status['residual'].detach().clone()))
    _fire(ctx)
    x = cg(ctx['op'], b, initial_value=x0, max_iterations=a['iters'], tolerance=a['tol'], callback=cb if a['callback'] else None)
    return (x, [s[0] for s in seen], [s[1] for s in seen], [s[2] for s in seen])


TARGETS['cg'] = Target('cg', _cfg_opt, _build_cg, _gen_cg, _run_cg, 2.0)


def _build_min(case, own):
    """f(x) = || A x - b ||_2^2 (+ second block) built from operators; A and b caller-owned."""
    import mrpro.operators as ops
    from mrpro.operators.functionals import L2NormSquared
    c, dt, seed = case['cfg'], case['dtype'], case['seed']
    a = make_tensor({'shape': [c['m'], c['n']], 'dtype': dt, 'kind': c['mkind'], 'seed': seed}, own, 'ctor.matrix')
    b = make_tensor({'shape': c['batch'] + [c['m']], 'dtype': dt, 'kind': 'plain', 'seed': seed + 1}, own, 'ctor.target')
    e = ops.EinsumOp(a)
    l2 = L2NormSquared(target=b, divide_by_n=False)
    f = l2 @ e
    return {'op': f, 'watch': [f, e, l2], 'shape': c['batch'] + [c['n']]}


def _gen_min(which):
    def gen(rng, cfg, dt, tier):
        a = {'kind': rng.choice(KINDS), 'dtype': dt, 'seed': rng.randrange(10 ** 6), 'iters': rng.randint(1, 3),
             'requires_grad': rng.random() < 0.3, 'callback': rng.random() < 0.3, 'lr': rng.choice([0.125, 0.5, 1.0])}
        if which == 'adam':
            a['amsgrad'] = rng.random() < 0.3
            a['decoupled'] = rng.random() < 0.3
            a['weight_decay'] = rng.choice([0, 0, 0.125])
        else:
            a['line_search'] = rng.choice(['strong_wolfe', None])
        return {'call': which, 'arg': a}
    return gen


def _run_min(ctx, call, own, tag):
    from mrpro.algorithms.optimizers import adam, lbfgs
    a = call['arg']
    x0 = make_tensor({'shape': ctx['shape'], 'dtype': a['dtype'], 'kind': a['kind'], 'seed': a['seed']}, own, f'{tag}.initial_parameters')
    if a['requires_grad'] and x0.is_leaf:
        x0.requires_grad_(True)
    seen = []

    def cb(status):
        seen.append((int(status['iteration_number']), status['solution'][0].detach().clone()))
    params = [x0]
    own(f'{tag}.initial_parameters_list', params)
    _fire(ctx)
    if call['call'] == 'adam':
        res = adam(ctx['op'], params, max_iter=a['iters'], lr=a['lr'], amsgrad=a['amsgrad'], decoupled_weight_decay=a['decoupled'],
                   weight_decay=a['weight_decay'], callback=cb if a['callback'] else None)
    else:
        res = lbfgs(ctx['op'], params, lr=a['lr'], max_iter=a['iters'], line_search_fn=a['line_search'],
                    callback=cb if a['callback'] else None)
    return (tuple(r.detach() for r in res), [s[0] for s in seen], [s[1] for s in seen])


def _cfg_min(rng, dt):
    c = _cfg_opt(rng, dt)
    c['_dtype'] = dt if rng.random() < 0.3 else REAL_OF[dt]
    return c


def _cfg_lbfgs(rng, dt):
    c = _cfg_opt(rng, dt)
    c['_dtype'] = REAL_OF[dt]
    return c


TARGETS['adam'] = Target('adam', _cfg_min, _build_min, _gen_min('adam'), _run_min, 1.0, max_len=5)
TARGETS['lbfgs'] = Target('lbfgs', _cfg_lbfgs, _build_min, _gen_min('lbfgs'), _run_min, 1.0, max_len=5)
OPT_NAMES = ['cg', 'adam', 'lbfgs']


# ------------------------------------------------------------------------------------------------
# reconstructions
# ------------------------------------------------------------------------------------------------
def _kd_cfg(rng, small=False):
    return {'n_other': rng.randint(1, 2), 'n_coils': rng.randint(1, 3), 'n_k2': rng.choice([1, 1, 2]),
            'n_k1': rng.choice([2, 4] if small else [4, 6]), 'n_k0': rng.choice([4, 6] if small else [4, 8])}


def _cfg_recon(rng, dt):
    which = rng.choice(['DirectReconstruction', 'IterativeSENSEReconstruction', 'RegularizedIterativeSENSEReconstruction',
                        'RegularizedIterativeSENSEReconstruction'])
    ident = rng.random() < 0.5
    bare = ident and rng.random() < 0.75  # identity Fourier operator, no csm / dcf / noise: every stage may alias kdata.data
    return {'which': which, 'kd': _kd_cfg(rng, small=True), 'fourier': 'identity' if ident else 'fourier',
            'csm': False if bare else rng.random() < 0.6, 'dcf': False if bare else rng.random() < 0.5,
            'noise': False if bare else rng.random() < 0.3,
            'iters': rng.randint(1, 3), 'reg_data': rng.choice(['float', 'tensor', 'tensor', 'tensor0']),
            'reg_weight': rng.choice(['float', 'tensor0', 'float']), 'reg_op': rng.choice(['none', 'none', 'identity']),
            '_dtype': 'c64'}


def _build_recon(case, own):
    import mrpro.operators as ops
    from mrpro.algorithms import reconstruction as R
    from mrpro.data import CsmData, DcfData, KNoise
    c, seed, dt = case['cfg'], case['seed'], case['dtype']
    kdc = c['kd']
    kd0, _ = make_kdata(dict(kdc, n_other=1), seed, lambda n, x: x)
    if c['fourier'] == 'identity':
        fop = ops.IdentityOp()
    else:
        fop = ops.FourierOp.from_kdata(kd0)
    img = [1, kdc['n_coils'], kdc['n_k2'], kdc['n_k1'], kdc['n_k0']]
    csm = dcf = noise = None
    if c['csm']:
        t = make_tensor({'shape': img, 'dtype': dt, 'kind': 'plain', 'seed': seed + 1}, own, 'ctor.csm.data')
        csm = own('ctor.csm', CsmData(t, kd0.header))
    if c['dcf']:
        t = make_tensor({'shape': [1, kdc['n_k2'], kdc['n_k1'], kdc['n_k0']], 'dtype': 'f32', 'kind': 'plain', 'seed': seed + 2,
                         'lo': 1, 'hi': 8}, own, 'ctor.dcf.data')
        dcf = own('ctor.dcf', DcfData(t))
    if c['noise']:
        g = torch.Generator().manual_seed(seed + 4)
        t = own('ctor.noise.data', torch.complex(torch.randn(1, kdc['n_coils'], 1, 1, 32, generator=g),
                                                 torch.randn(1, kdc['n_coils'], 1, 1, 32, generator=g)))
        noise = own('ctor.noise', KNoise(t))
    kw = {}
    if c['which'] != 'DirectReconstruction':
        kw['n_iterations'] = c['iters']
    if c['which'] == 'RegularizedIterativeSENSEReconstruction':
        ishape = img if csm is None else [1, 1] + img[2:]
        if c['reg_data'] == 'float':
            kw['regularization_data'] = 0.5
        elif c['reg_data'] == 'tensor0':
            kw['regularization_data'] = own('ctor.regularization_data', torch.tensor(0.5 + 0.25j, dtype=DT[dt]))
        else:
            kw['regularization_data'] = make_tensor({'shape': ishape, 'dtype': dt, 'kind': 'plain', 'seed': seed + 3}, own,
                                                    'ctor.regularization_data')
        kw['regularization_weight'] = 0.5 if c['reg_weight'] == 'float' else own('ctor.regularization_weight', torch.tensor(0.5))
        if c['reg_op'] == 'identity':
            kw['regularization_op'] = ops.IdentityOp()
    rec = getattr(R, c['which'])(fourier_op=fop, csm=csm, dcf=dcf, noise=noise, **kw)
    return {'op': rec, 'watch': [rec, fop], 'kd': kdc}


def _gen_recon(rng, cfg, dt, tier):
    return {'call': rng.choice(['forward', 'forward', 'forward', 'direct_reconstruction']),
            'arg': {'n_other': rng.choice([1, 1, 2]), 'kind': rng.choice(['plain', 'view', 'noncontig', 'plain']),
                    'seed': rng.randrange(10 ** 6)}}


def _kdata_arg(kdc, a, own, tag, dt='c64'):
    """A caller-owned KData whose data tensor is plain / a view of a larger base / non-contiguous."""
    from mrpro.data import KData
    kd, _ = make_kdata(dict(kdc, n_other=a.get('n_other', kdc['n_other'])), a['seed'], lambda n, x: x, dt=dt)
    data = make_tensor({'shape': list(kd.data.shape), 'dtype': dt, 'kind': a['kind'], 'seed': a['seed']}, own, f'{tag}.kdata.data')
    kd = KData(kd.header, data, kd.traj)
    return own(f'{tag}.kdata', kd)


def _run_recon(ctx, call, own, tag):
    kd = _kdata_arg(ctx['kd'], call['arg'], own, tag)
    _fire(ctx)
    if call['call'] == 'direct_reconstruction':
        return ctx['op'].direct_reconstruction(kd)
    return ctx['op'](kd)


TARGETS['Reconstruction'] = Target('Reconstruction', _cfg_recon, _build_recon, _gen_recon, _run_recon, 1.0, max_len=5)
RECON_NAMES = ['Reconstruction']


# ------------------------------------------------------------------------------------------------
# KData transformations
# ------------------------------------------------------------------------------------------------
KD_CALLS = ['split_k1_into_other', 'split_k1_into_other', 'split_k2_into_other', 'select_other_subset', 'rearrange_k2_k1_into_k1',
            'remove_readout_os', 'compress_coils']
LABELS = ['average', 'slice', 'contrast', 'phase', 'set']


def _cfg_kdt(rng, dt):
    n0 = rng.choice([4, 8])
    return {'kd': {'n_other': rng.randint(1, 2), 'n_coils': rng.randint(2, 3), 'n_k2': rng.choice([2, 4]), 'n_k1': rng.choice([4, 6]),
                   'n_k0': n0, 'recon_x': rng.choice([n0, n0 // 2]), 'discard': rng.choice([0, 2])},
            'kind': rng.choice(['plain', 'view', 'noncontig']), '_dtype': rng.choice(['c64', 'c64', 'c128'])}


def _build_kdt(case, own):
    c = case['cfg']
    kd = _kdata_arg(c['kd'], {'seed': case['seed'], 'kind': c['kind']}, own, 'source', dt=case['dtype'])
    return {'op': kd, 'watch': [kd], 'kd': c['kd']}


def _gen_kdt(rng, cfg, dt, tier):
    call = rng.choice(KD_CALLS)
    kd = cfg['kd']
    a = {'seed': rng.randrange(10 ** 6), 'kind': rng.choice(['plain', 'view', 'noncontig'])}
    if call.startswith('split'):
        n = kd['n_k1'] if 'k1' in call else kd['n_k2']
        per = rng.choice([d for d in range(1, n + 1) if n % d == 0])
        perm = list(range(n))
        if rng.random() < 0.5:
            rng.shuffle(perm)
        a['idx'] = [perm[i:i + per] for i in range(0, n, per)]
        a['label'] = rng.choice(LABELS + (['repetition'] if kd['n_other'] == 1 else []))
    elif call == 'select_other_subset':
        a['idx'] = rng.sample(range(kd['n_other']), rng.randint(1, kd['n_other']))
    elif call == 'compress_coils':
        a['n'] = rng.randint(1, kd['n_coils'])
        a['mode'] = rng.choice(['default', 'batch', 'joint'])
    return {'call': call, 'arg': a}


def _idx_tensor(a, own, name):
    t = torch.tensor(a['idx'])
    if a['kind'] == 'view':
        base = own(name + '.base', torch.cat([t, t], -1))
        t = base[..., : t.shape[-1]]
    elif a['kind'] == 'noncontig' and t.ndim == 2:
        base = own(name + '.base', t.t().contiguous())
        t = base.t()
    return own(name, t)


def _run_kdt(ctx, call, own, tag):
    kd, a, name = ctx['op'], call['arg'], call['call']
    if name.startswith('split'):
        idx = _idx_tensor(a, own, f'{tag}.split_idx')
        _fire(ctx)
        return getattr(kd, name)(idx, a['label'])
    if name == 'select_other_subset':
        idx = _idx_tensor(a, own, f'{tag}.subset_idx')
        _fire(ctx)
        return kd.select_other_subset(idx, 'repetition')
    _fire(ctx)
    if name == 'compress_coils':
        if a['mode'] == 'batch':
            return kd.compress_coils(a['n'], batch_dims=(0,))
        if a['mode'] == 'joint':
            return kd.compress_coils(a['n'], joint_dims=(-1, -2, -3))
        return kd.compress_coils(a['n'])
    return getattr(kd, name)()


TARGETS['KData'] = Target('KData', _cfg_kdt, _build_kdt, _gen_kdt, _run_kdt, 1.0)
KDT_NAMES = ['KData']


# ------------------------------------------------------------------------------------------------
# trajectory calculators, dcf, prewhitening, csm
# ------------------------------------------------------------------------------------------------
def _cfg_trajcalc(rng, dt):
    which = rng.choice(['KTrajectoryCartesian', 'KTrajectoryRadial2D', 'KTrajectoryRpe', 'KTrajectoryRpe',
                        'KTrajectorySunflowerGoldenRpe'])
    return {'which': which, 'shift': rng.choice(['default', 'tuple', 'tensor']), 'angle': rng.choice([0.5, 1.9416]),
            'variants': [_kd_cfg(rng) for _ in range(3)], '_dtype': 'c64'}


def _build_trajcalc(case, own):
    from mrpro.data import traj_calculators as T
    c = case['cfg']
    if c['which'] == 'KTrajectoryRpe':
        kw = {}
        if c['shift'] == 'tuple':
            kw['shift_between_rpe_lines'] = (0, 0.5)
        elif c['shift'] == 'tensor':
            kw['shift_between_rpe_lines'] = own('ctor.shift_between_rpe_lines', torch.tensor([0.0, 0.5, 0.25]))
        calc = T.KTrajectoryRpe(c['angle'], **kw)
    elif c['which'] == 'KTrajectoryRadial2D':
        calc = T.KTrajectoryRadial2D(c['angle'])
    elif c['which'] == 'KTrajectorySunflowerGoldenRpe':
        calc = T.KTrajectorySunflowerGoldenRpe(rad_us_factor=1.0)
    else:
        calc = T.KTrajectoryCartesian()
    return {'op': calc, 'watch': [calc], 'variants': c['variants']}


def _gen_trajcalc(rng, cfg, dt, tier):
    return {'call': 'calculate', 'arg': {'variant': rng.randrange(3), 'seed': rng.randrange(10 ** 6), 'kind': 'header'}}


def _run_trajcalc(ctx, call, own, tag):
    a = call['arg']
    _, header = make_kdata(ctx['variants'][a['variant']], a['seed'], lambda n, x: x)
    own(f'{tag}.kheader', header)
    _fire(ctx)
    return ctx['op'](header)


TARGETS['KTrajectoryCalculator'] = Target('KTrajectoryCalculator', _cfg_trajcalc, _build_trajcalc, _gen_trajcalc, _run_trajcalc, 2.0)


def _gen_trajmrd(rng, cfg, dt, tier):
    return {'call': rng.choice(['KTrajectoryIsmrmrd', 'KTrajectoryIsmrmrd+sort_and_reshape']),
            'arg': {'n_acq': rng.choice([2, 4, 6]), 'n_k0': rng.randint(2, 5), 'dims': rng.choice([2, 3]),
                    'seed': rng.randrange(10 ** 6), 'kind': 'acquisitions'}}


def _run_trajmrd(ctx, call, own, tag):
    import ismrmrd
    import numpy as np
    from mrpro.data.traj_calculators import KTrajectoryIsmrmrd
    a = call['arg']
    g = torch.Generator().manual_seed(a['seed'])
    acqs = []
    for i in range(a['n_acq']):
        acq = ismrmrd.Acquisition()
        acq.resize(a['n_k0'], 1, trajectory_dimensions=a['dims'])
        acq.traj[:] = (torch.randint(-8, 9, (a['n_k0'], a['dims']), generator=g).to(torch.float32) / 4).numpy()
        own(f'{tag}.acquisitions[{i}].traj', acq.traj)
        acqs.append(acq)
    sort_idx = own(f'{tag}.sort_idx', np.array(list(reversed(range(a['n_acq'])))))
    _fire(ctx)
    raw = KTrajectoryIsmrmrd()(acqs)
    if call['call'].endswith('sort_and_reshape'):
        return raw.sort_and_reshape(sort_idx, n_k2=1, n_k1=a['n_acq'] // 2)
    return raw


def _fn_target(name, gen_call, run, weight=1.0, max_len=None):
    TARGETS[name] = Target(name, lambda rng, dt: {}, lambda case, own: {'op': None, 'watch': []}, gen_call, run, weight, max_len)


def _gen_dcf(rng, cfg, dt, tier):
    call = rng.choice(['dcf_1d', 'dcf_2d3d_voronoi', 'DcfData.from_traj_voronoi'])
    a = {'seed': rng.randrange(10 ** 6), 'kind': rng.choice(KINDS if call != 'dcf_2d3d_voronoi' else ['plain', 'view', 'noncontig']),
         'dtype': rng.choice(['f32', 'f32', 'f32', 'f32', 'f64'])}
    if call == 'dcf_1d':
        a['n'] = rng.randint(1, 8)
        a['repeats'] = rng.random() < 0.4
    elif call == 'dcf_2d3d_voronoi':
        a['d'] = rng.choice([2, 2, 3])
        a['shape'] = [1, rng.randint(3, 4), rng.randint(3, 4)] if a['d'] == 2 else [2, 3, 3]
    else:
        a['traj'] = rng.choice(['cart', 'radial'])
        a['ny'], a['nx'], a['spokes'] = rng.randint(2, 5), rng.randint(3, 6), rng.randint(3, 4)
    return {'call': call, 'arg': a}


def _run_dcf(ctx, call, own, tag):
    from mrpro.algorithms.dcf import dcf_1d, dcf_2d3d_voronoi
    a = call['arg']
    if call['call'] == 'dcf_1d':
        t = make_tensor({'shape': [a['n']], 'dtype': a['dtype'], 'kind': a['kind'], 'seed': a['seed'], 'lo': -16, 'hi': 16,
                         'scale': 1.0 if a['repeats'] else 0.25}, own, f'{tag}.traj')
        _fire(ctx)
        return dcf_1d(t)
    if call['call'] == 'dcf_2d3d_voronoi':
        t = make_tensor({'shape': [a['d']] + a['shape'], 'dtype': a['dtype'], 'kind': a['kind'], 'seed': a['seed'], 'lo': -64,
                         'hi': 64, 'scale': 1 / 16}, own, f'{tag}.traj')
        _fire(ctx)
        return dcf_2d3d_voronoi(t)
    from mrpro.data import DcfData
    traj = _traj(a['traj'], a, a['seed'], own, f'{tag}.traj')
    _fire(ctx)
    return DcfData.from_traj_voronoi(traj)


_fn_target('dcf', _gen_dcf, _run_dcf, 1.5, max_len=6)
_fn_target('KTrajectoryIsmrmrd', _gen_trajmrd, _run_trajmrd, 0.7, max_len=4)


def _gen_prewhiten(rng, cfg, dt, tier):
    return {'call': 'prewhiten_kspace', 'arg': {'kd': _kd_cfg(rng, small=True), 'seed': rng.randrange(10 ** 6),
                                                'kind': rng.choice(['plain', 'view', 'noncontig']),
                                                'nkind': rng.choice(['plain', 'view', 'noncontig']),
                                                'scale': rng.choice(['default', 'float', 'tensor'])}}


def _run_prewhiten(ctx, call, own, tag):
    from mrpro.algorithms.prewhiten_kspace import prewhiten_kspace
    from mrpro.data import KNoise
    a = call['arg']
    kd = _kdata_arg(a['kd'], a, own, tag)
    g = torch.Generator().manual_seed(a['seed'] + 9)
    nc = a['kd']['n_coils']
    nshape = [1, nc, 1, 1, 24]
    noise = torch.complex(torch.randn(nshape, generator=g), torch.randn(nshape, generator=g))
    if a['nkind'] == 'view':
        base = own(f'{tag}.knoise.base', torch.cat([noise, noise], -1))
        noise = base[..., :24]
    elif a['nkind'] == 'noncontig':
        base = own(f'{tag}.knoise.base', noise.transpose(-1, 1).contiguous())
        noise = base.transpose(-1, 1)
    own(f'{tag}.knoise.data', noise)
    kn = own(f'{tag}.knoise', KNoise(noise))
    kw = {}
    if a['scale'] == 'float':
        kw['scale_factor'] = 2.0
    elif a['scale'] == 'tensor':
        kw['scale_factor'] = own(f'{tag}.scale_factor', torch.tensor(4.0))
    _fire(ctx)
    return prewhiten_kspace(kd, kn, **kw)


_fn_target('prewhiten_kspace', _gen_prewhiten, _run_prewhiten, 1.0, max_len=5)


def _gen_csm(rng, cfg, dt, tier):
    return {'call': rng.choice(['walsh', 'inati', 'CsmData.from_idata_walsh', 'CsmData.from_idata_inati']),
            'arg': {'shape': [rng.randint(1, 3), rng.choice([1, 1, 2]), rng.randint(2, 4), rng.randint(2, 4)],
                    'kind': rng.choice(KINDS), 'dtype': rng.choice(['c64', 'c64', 'c128']), 'seed': rng.randrange(10 ** 6),
                    'width': rng.choice(['int', 'spatial'])}}


def _run_csm(ctx, call, own, tag):
    from mrpro.algorithms.csm import inati, walsh
    from mrpro.data import SpatialDimension
    a = call['arg']
    name = call['call']
    if name in ('walsh', 'inati'):
        x = make_tensor({'shape': a['shape'], 'dtype': a['dtype'], 'kind': a['kind'], 'seed': a['seed']}, own, f'{tag}.coil_images')
        w = 3 if a['width'] == 'int' else own(f'{tag}.smoothing_width', SpatialDimension(1, 3, 3))
        _fire(ctx)
        return (walsh if name == 'walsh' else inati)(x, w)
    from mrpro.data import CsmData, IData
    x = make_tensor({'shape': [2] + a['shape'], 'dtype': a['dtype'], 'kind': a['kind'], 'seed': a['seed']}, own, f'{tag}.idata.data')
    kd, _ = make_kdata({'n_other': 1, 'n_coils': 1, 'n_k2': 1, 'n_k1': 2, 'n_k0': 2}, a['seed'], lambda n, y: y)
    idata = own(f'{tag}.idata', IData.from_tensor_and_kheader(x, kd.header))
    w = 3 if a['width'] == 'int' else own(f'{tag}.smoothing_width', SpatialDimension(1, 3, 3))
    _fire(ctx)
    fn = CsmData.from_idata_walsh if name.endswith('walsh') else CsmData.from_idata_inati
    return fn(idata, w, chunk_size_otherdim=None if a['seed'] % 2 else 1)


_fn_target('csm', _gen_csm, _run_csm, 1.5, max_len=5)
TDC_NAMES = ['KTrajectoryCalculator', 'dcf', 'prewhiten_kspace', 'csm', 'KTrajectoryIsmrmrd']


# ------------------------------------------------------------------------------------------------
def _fam(name, names, q, t):
    return Family(name, gen_for(names, q, t), impl, None, '', None, oracle, nontrivial=nontrivial, descr=descr,
                  theorem='C10_history (dynamic monitor)')


FAMILIES = [
    _fam('linop_histories', LINOP_NAMES, 90, 2000),
    _fam('nonlinear_histories', NONLIN_NAMES, 30, 700),
    _fam('functional_histories', FUNC_NAMES, 60, 1800),
    _fam('optimizer_histories', OPT_NAMES, 30, 700),
    _fam('recon_histories', RECON_NAMES, 24, 400),
    _fam('kdata_transform_histories', KDT_NAMES, 20, 400),
    _fam('traj_dcf_csm_histories', TDC_NAMES, 30, 600),
]
