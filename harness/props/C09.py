"""C09 - elementary operators compute exactly their documented mathematical action."""
import itertools

import numpy as np
import torch

import opzoo
import vlib
from vlib import Family, natlit, zlit
from props import C01

LEVEL = 'proof'
RULE = ('(a) every (old,new) size pair <= 9 for pad/crop centre and crop-after-pad; (b) operator configurations of harness/opzoo.py for the '
        'modelled classes: dense forward matrix against an independent numpy construction of the documented action (exact) and against the Coq '
        'model; (c) sampling identities S S^H / S^H S on the dense matrices; (d) PCA projector and wavelet analysis against numpy/pywt references. '
        'Non-trivial = sizes differ / dense size >= 2; distinct by case hash.')
TRUSTED_BASE = C01.TRUSTED_BASE + ['numpy/pywt references written from the documentation (independent of the Coq models)']
ASSUMPTIONS = ['pywt (mode="zero") is the reference semantics of the separable DWT named in the property']
PREAMBLE = opzoo.PREAMBLE


# ---- (a) centre / crop-after-pad, exhaustive over small sizes ---------------------------------------
def gen_sizes(rng, tier):
    top = 9 if tier == 'quick' else 17
    return [{'old': o, 'new': n} for o in range(1, top + 1) for n in range(1, top + 1)]


def impl_sizes(c):
    from mrpro.operators import ZeroPadOp
    from mrpro.utils.zero_pad_or_crop import zero_pad_or_crop
    o, n = c['old'], c['new']
    x = torch.arange(1, o + 1, dtype=torch.float64)
    y = zero_pad_or_crop(x, (n,), dim=(0,))
    back = zero_pad_or_crop(y, (o,), dim=(-1,))
    op = ZeroPadOp(dim=(0,), original_shape=(o,), padded_shape=(n,))
    return {'y': [int(v) for v in y.tolist()], 'back': [int(v) for v in back.tolist()], 'op': [int(v) for v in op(x)[0].tolist()],
            'opH': [int(v) for v in op.adjoint(torch.arange(1, n + 1, dtype=torch.float64))[0].tolist()]}


def coq_sizes(c):
    o, n = c['old'], c['new']
    return (f'(map (pad_vec (R:=ZRing) {natlit(o)} {natlit(n)} (fun i => Z.of_nat i + 1)%Z) (seq 0 {natlit(n)}), '
            f'map (pad_vec (R:=ZRing) {natlit(n)} {natlit(o)} (fun i => Z.of_nat i + 1)%Z) (seq 0 {natlit(o)}))')


def cmp_sizes(c, o, m):
    if 'raises' in o:
        return f'impl raises {o["raises"]}'
    y, yH = m
    if o['y'] != y or o['op'] != y:
        return f'pad {c["old"]}->{c["new"]}: model {y}, zero_pad_or_crop {o["y"]}, ZeroPadOp {o["op"]}'
    if o['opH'] != yH:
        return f'ZeroPadOp.adjoint {c["new"]}->{c["old"]}: model {yH}, impl {o["opH"]}'
    return None


def oracle_sizes(c, o):
    if 'raises' in o:
        return f'zero_pad_or_crop({c["old"]}->{c["new"]}) raised {o["raises"]}: {o.get("msg")}'
    old, new = c['old'], c['new']
    if o['y'][new // 2] != old // 2 + 1:
        return f'{old}->{new}: centre sample (index {old // 2}) is not at index {new // 2}: result {o["y"]}'
    if old <= new and o['back'] != list(range(1, old + 1)):
        return f'{old}->{new}->{old}: crop after pad is not the identity: {o["back"]}'
    kept = [v for v in o['y'] if v != 0]
    if kept != sorted(kept) or (old <= new and len(kept) != old) or (old > new and len(kept) != new):
        return f'{old}->{new}: samples lost or reordered: {o["y"]}'
    return None


# ---- (b) documented action of the modelled classes ---------------------------------------------------
def gen_action(rng, tier):
    base = C01._gen_cls(list(opzoo.MODELLED), 56, 1400)(rng, tier)
    # rank-1 finite differences (filter_separable raised before the repair) are always exercised
    base.extend(opzoo.fixed_cart_cases())
    base.append({'cls': 'FiniteDifferenceOp', 'shape': [5], 'axes': [0], 'dims': [0], 'mode': 'forward', 'pad_mode': 'zeros', 'rank': 1})
    return base


def impl_action(c):
    op, in_shape = opzoo.build(c)
    F, G, out_shape = opzoo.dense(op, in_shape, opzoo.dtype_of(c))
    return {'F': [[[v.real, v.imag] for v in col] for col in F.T.tolist()], 'G': [[[v.real, v.imag] for v in col] for col in G.T.tolist()],
            'in': list(in_shape), 'out': out_shape}


def oracle_action(c, o):
    if 'raises' in o:
        return f'{c["cls"]} raised {o["raises"]} on a valid configuration: {o.get("msg")}'
    F = C01._mat(o, 'F')
    ref = opzoo.reference_matrix(c)
    if ref is None:
        return None
    if F.shape != ref.shape:
        return f'{c["cls"]}: operator maps {F.shape[1]} -> {F.shape[0]} entries, documented action {ref.shape[1]} -> {ref.shape[0]}'
    if not np.array_equal(F, ref.astype(np.complex128)):
        i, j = np.argwhere(F != ref)[0]
        return f'{c["cls"]}: entry ({i},{j}) of the operator matrix is {F[i, j]}, documented action gives {ref[i, j]}'
    if c['cls'] == 'CartesianSamplingOp':
        G = C01._mat(o, 'G')
        S, SH = F, G
        ns = S.shape[0]
        pts = [tuple(p) for p in c['points']] * c['coils']
        gram = SH @ S
        if not np.array_equal(gram, np.diag(np.diag(gram))):
            return 'S^H S is not diagonal'
        if not c['has_duplicates'] and not set(np.diag(gram).real.tolist()) <= {0.0, 1.0}:
            return f'S^H S is not a 0/1 mask although no grid point is sampled twice: diag {np.diag(gram)}'
        SSH = S @ SH
        nz, ny, nx = c['enc']
        for s in range(ns):
            kz, ky, kx = pts[s]
            inside = 0 <= kz + nz // 2 < nz and 0 <= ky + ny // 2 < ny and 0 <= kx + nx // 2 < nx
            unique = pts.count(pts[s]) == c['coils']
            if inside and unique and not (SSH[s, s] == 1 and np.count_nonzero(SSH[s]) == 1):
                return f'S S^H is not the identity on the unique in-range sample {s} (k={pts[s]})'
            if not inside and np.count_nonzero(S[s]) != 0:
                return f'out-of-range sample {s} (k={pts[s]}) is not zero-filled'
    if c['cls'] == 'RearrangeOp':
        if not (np.array_equal(F.sum(0), np.ones(F.shape[1])) and np.array_equal(F.sum(1), np.ones(F.shape[0]))):
            return 'RearrangeOp is not a permutation'
    return None


def descr_action(c):
    d = C01.descr(c)
    return d


# ---- (d) PCA and wavelets against numpy / pywt -------------------------------------------------------
def gen_pca_wav(rng, tier):
    out = []
    for i in range(16 if tier == 'quick' else 300):
        out.append(opzoo.gen_pca(rng) if i % 2 else opzoo.gen_wavelet(rng))
        if out[-1]['cls'] == 'WaveletOp':
            out[-1]['wavelet'] = C01.WAVELETS[(i // 2) % len(C01.WAVELETS)]
            out[-1]['level'] = 1 + (i // 2) % 2
            out[-1]['seed'] = rng.randrange(10 ** 6)
    return out


def impl_pca_wav(c):
    op, in_shape = opzoo.build(c)
    if c['cls'] == 'PCACompressionOp':
        M = op._compression_matrix.to(torch.complex128)  # (*other, 1, n, comp)
        data = opzoo.to_c(c['data'], [c['joint'], c['comp']]).to(torch.complex128)
        datas = [data] if not c['other'] else [data, data.flip(0) * 1j + 1]
        res = []
        for k, d in enumerate(datas):
            m = M.reshape(-1, c['n'], c['comp'])[k].numpy()
            dn = d.numpy()
            dn = dn - dn.mean(-1, keepdims=True)
            cov = dn.T @ dn.conj()  # sum_j x_j x_j^H with x_j the rows
            ev = np.sort(np.linalg.eigvalsh(cov))[::-1]
            captured = float(np.real(np.trace(m @ cov @ m.conj().T)))
            res.append({'orth': float(np.abs(m @ m.conj().T - np.eye(c['n'])).max()), 'captured': captured,
                        'best': float(ev[:c['n']].sum()), 'total': float(ev.sum())})
        return {'pca': res}
    import pywt
    nd = len(c['domain'])
    g = np.random.default_rng(c['seed'])
    x = g.integers(-4, 5, size=in_shape).astype(np.float64)
    (y,) = op(torch.from_numpy(x))
    axes = tuple(range(-nd, 0))
    refs = []
    for xb in x.reshape(-1, *c['domain']):
        if nd == 1:
            co = pywt.wavedec(xb, c['wavelet'], mode='zero', level=c['level'])
            refs.append(np.concatenate([a.ravel() for a in co]))
        elif nd == 2:
            co = pywt.wavedec2(xb, c['wavelet'], mode='zero', level=c['level'])
            refs.append(np.concatenate([co[0].ravel()] + [a.ravel() for lv in co[1:] for a in lv]))
        else:
            co = pywt.wavedecn(xb, c['wavelet'], mode='zero', level=c['level'], axes=axes)
            keys = ['aad', 'ada', 'add', 'daa', 'dad', 'dda', 'ddd']
            refs.append(np.concatenate([co[0].ravel()] + [lv[k].ravel() for lv in co[1:] for k in keys]))
    ref = np.stack(refs).reshape(*c['batch'], -1)
    dev = float(np.abs(y.numpy() - ref).max()) if tuple(y.shape) == ref.shape else -1.0
    (back,) = op.adjoint(y)
    # the hypothesis of C09_wavelet_perfect_reconstruction / _2d_ / _3d_isometry (pr_cond, c = 1) evaluated on the float filters ptwt uses
    w = pywt.Wavelet(c['wavelet'])
    n_taps = w.dec_len
    flo, fhi, glo, ghi = np.array(w.dec_lo)[::-1], np.array(w.dec_hi)[::-1], np.array(w.rec_lo), np.array(w.rec_hi)
    pr_dev = 0.0
    for par in (0, 1):
        for d in range(-n_taps, n_taps + 1):
            sm = sum(glo[k] * flo[k + d] + ghi[k] * fhi[k + d] for k in range(n_taps) if k % 2 == par and 0 <= k + d < n_taps)
            pr_dev = max(pr_dev, abs(sm - (1.0 if d == 0 else 0.0)))
    return {'pr_dev': float(pr_dev), 'wav_dev': dev, 'shape': list(y.shape), 'ref_shape': list(ref.shape),
            'isometry_dev': float(np.abs(back.numpy() - x).max()), 'orthogonal': pywt.Wavelet(c['wavelet']).orthogonal}


def oracle_pca_wav(c, o):
    if 'raises' in o:
        return f'{c["cls"]} raised {o["raises"]}: {o.get("msg")}'
    if 'pca' in o:
        for r in o['pca']:
            if r['orth'] > 1e-9:
                return f'PCA compression matrix rows are not orthonormal (deviation {r["orth"]:.3g})'
            if r['captured'] < r['best'] * (1 - 1e-9) - 1e-9:
                return (f'PCA compression keeps {r["captured"]:.6g} of the variance; the dominant {c["n"]}-dimensional principal subspace '
                        f'holds {r["best"]:.6g} (total {r["total"]:.6g})')
        return None
    if o['wav_dev'] < 0:
        return f'wavelet coefficient stack has shape {o["shape"]}, PyWavelets gives {o["ref_shape"]}'
    if o['wav_dev'] > 1e-9:
        return f'wavelet coefficients differ from PyWavelets (mode zero) by {o["wav_dev"]:.3g}'
    if o['orthogonal'] and o.get('pr_dev', 0.0) > 1e-9:
        return (f'the PyWavelets filters of the orthogonal wavelet {c["wavelet"]} miss the perfect-reconstruction condition pr_cond (c = 1) by '
                f'{o["pr_dev"]:.3g}: C09_wavelet_isometry does not cover this filter bank')
    if o['orthogonal'] and o['isometry_dev'] > 1e-9:
        return f'W^H W x != x for the orthogonal wavelet {c["wavelet"]} (deviation {o["isometry_dev"]:.3g})'
    return None



def translate(ctx):
    """Regenerate Gen/fourier_gen.v (index arithmetic of CartesianSamplingOp, shift/transform nesting of FastFourierOp) and re-check
    the obligations gen_* = model."""
    from translate import fourier
    out = vlib.COQ / 'Gen' / 'fourier_gen.v'
    out.parent.mkdir(exist_ok=True)
    ok, why = fourier.write(out)
    ctx.extra.setdefault('coverage', {})['translator_available'] = ok
    if not ok:
        ctx.notes.append(f'translator harness/translate/fourier.py failed closed ({why})')
        ctx.problem('proof', 'gen_fourier', None, f'CartesianSamplingOp.py / FastFourierOp.py are outside the translated subset ({why}): the regenerated obligations cannot be stated')
        return
    ctx.obligations += fourier.N_OBLIGATIONS
    rc, so, se = vlib.coqc_file(out)
    if rc == 0:
        ctx.discharged += fourier.N_OBLIGATIONS
    else:
        ctx.problem('proof', 'gen_fourier', None,
                    'regenerated obligation gen_*_ok (sampling index / FFT shift nesting == model) no longer proves: ' + (se or so)[-700:])


FAMILIES = [
    Family('pad_centre', gen_sizes, impl_sizes, coq_sizes, PREAMBLE, cmp_sizes, oracle_sizes, nontrivial=lambda c: c['old'] != c['new'],
           theorem='C09_pad_centre, C09_crop_after_pad'),
    Family('findiff', lambda rng, tier: [c for c in gen_action(rng, tier) if c['cls'] == 'FiniteDifferenceOp'], impl_action, C01.coq_dense,
           PREAMBLE, C01.cmp_dense, oracle_action, descr=descr_action, shard=40, theorem='C09_findiff_forward/backward/central'),
    Family('documented_action', lambda rng, tier: [c for c in gen_action(rng, tier) if c['cls'] != 'FiniteDifferenceOp'], impl_action,
           C01.coq_dense, PREAMBLE, C01.cmp_dense, oracle_action, descr=descr_action, shard=40,
           theorem='C09_sampling_SSH, C09_sampling_zero_fill, C09_sampling_gram_mask, C09_sampling_mask_01, C09_matrix'),
    Family('pca_wavelet', gen_pca_wav, impl_pca_wav, None, '', None, oracle_pca_wav, descr=C01.descr, theorem='(implementation-level, numpy/pywt reference)'),
]


# ---- added after seeded change C09-b1: constructing an operator must not change the caller's encoding matrix -------------
def _gen_shared_enc(rng, tier):
    out = []
    for i in range(6 if tier == 'quick' else 60):
        out.append({'enc': [rng.choice([1, 3]), rng.randint(5, 8), rng.randint(3, 5)], 'n_irregular': rng.randint(3, 4), 'seed': rng.randrange(10 ** 6),
                    'first': ['irregular_ky', 'singleton_kz', 'fourier_partial'][i % 3]})
    return out


def _impl_shared_enc(c):
    from mrpro.data import KTrajectory, SpatialDimension
    from mrpro.operators import CartesianSamplingOp, FourierOp
    nz, ny, nx = c['enc']
    enc = SpatialDimension(nz, ny, nx)
    f = lambda v, shape: torch.tensor(v, dtype=torch.float64).reshape(shape)  # noqa: E731
    full = lambda n: [i - n // 2 for i in range(n)]  # noqa: E731
    g = np.random.default_rng(c['seed'])
    irregular = sorted(set((g.integers(-(ny // 2) * 4, (ny - ny // 2 - 1) * 4, c['n_irregular']) / 4 + 0.125).tolist()))
    if c['first'] == 'irregular_ky':
        t1 = KTrajectory(f(full(nz), (1, -1, 1, 1)), f(irregular, (1, 1, -1, 1)), f(full(nx), (1, 1, 1, -1)), repeat_detection_tolerance=None)
        CartesianSamplingOp(enc, t1)
    elif c['first'] == 'singleton_kz':
        t1 = KTrajectory(f([0], (1, 1, 1, 1)), f(full(ny), (1, 1, -1, 1)), f(full(nx), (1, 1, 1, -1)), repeat_detection_tolerance=None)
        CartesianSamplingOp(enc, t1)
    else:
        t1 = KTrajectory(f([0], (1, 1, 1, 1)), f(irregular, (1, 1, -1, 1)), f(full(nx), (1, 1, 1, -1)), repeat_detection_tolerance=None)
        FourierOp(SpatialDimension(1, ny, nx), enc, t1)
    after_first = [int(enc.z), int(enc.y), int(enc.x)]
    # a second, fully Cartesian operator built from the SAME encoding_matrix object
    ky2 = full(ny)[::-1]
    t2 = KTrajectory(f(full(nz), (1, -1, 1, 1)), f(ky2, (1, 1, -1, 1)), f(full(nx), (1, 1, 1, -1)), repeat_detection_tolerance=None)
    op2 = CartesianSamplingOp(enc, t2)
    x = torch.arange(nz * ny * nx, dtype=torch.float64).reshape(1, 1, nz, ny, nx)
    (y,) = op2(x)
    ref = x[..., list(range(nz)), :, :][..., [k + ny // 2 for k in ky2], :]
    return {'enc_after': after_first, 'second_ok': bool(torch.equal(y, ref)), 'yshape': list(y.shape)}


def _oracle_shared_enc(c, o):
    if isinstance(o, dict) and 'raises' in o:
        return f'building two operators from one encoding_matrix raised {o}'
    if o['enc_after'] != c['enc']:
        return f'constructing an operator ({c["first"]}) changed the caller\'s encoding_matrix from {c["enc"]} to {o["enc_after"]}'
    if not o['second_ok']:
        return 'a Cartesian sampling operator built from an encoding_matrix that was used before does not pick the documented grid values'
    return None


FAMILIES.append(Family('shared_encoding_matrix', _gen_shared_enc, _impl_shared_enc, None, '', None, _oracle_shared_enc,
                       theorem='(implementation-level: the documented action depends on the arguments only)'))
