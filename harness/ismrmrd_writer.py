"""Write small, real ISMRMRD/HDF5 raw-data files for the C14/C15 checks (no use of the test-suite's fixture generator,
which cannot build the header object with the installed ismrmrd/xsdata).

Every payload value encodes the id of the acquisition it belongs to (all numbers are integers < 2^24, exact in
complex64/float32):
    data[c, j]        = (id * 64 + c * 16 + j)  +  1j * id           (c < 4 coils, j < 16 samples)
    traj[j, d]        = id * 64 + d * 16 + j                          (d < 3)
    scan_counter = acquisition_time_stamp = measurement_uid = id, physiology_time_stamp = (id, id+1, id+2),
    position = (id, 2 id, 3 id) mm, patient_table_position = (3 id, id, 2 id) mm, user_int[0] = id, user_float[0] = id,
    read/phase/slice directions = the id-th of six proper axis frames.
"""
from __future__ import annotations

import os
from pathlib import Path

import numpy as np

LABELS = ('k1', 'k2', 'average', 'slice', 'contrast', 'phase', 'repetition', 'set',
          'user0', 'user1', 'user2', 'user3', 'user4', 'user7')           # KDIM_SORT_LABELS order
_ISMRMRD_NAME = {'k1': 'kspace_encode_step_1', 'k2': 'kspace_encode_step_2'}

# frames (read, phase, slice): six right-handed, two left-handed
FRAMES = (
    ((1, 0, 0), (0, 1, 0), (0, 0, 1)),
    ((0, 1, 0), (0, 0, 1), (1, 0, 0)),
    ((0, 0, 1), (1, 0, 0), (0, 1, 0)),
    ((-1, 0, 0), (0, -1, 0), (0, 0, 1)),
    ((0, -1, 0), (1, 0, 0), (0, 0, 1)),
    ((1, 0, 0), (0, 0, 1), (0, -1, 0)),
    # left-handed frames (reversed phase / swapped read and phase): stored as improper rotations
    ((1, 0, 0), (0, -1, 0), (0, 0, 1)),
    ((0, 1, 0), (1, 0, 0), (0, 0, 1)),
)


def xml_header(enc_matrix=(8, 8, 1), recon_matrix=None, limits=None, receiver_channels=None, trajectory='cartesian') -> str:
    """limits: dict name -> (min, max, center) for kspace_encoding_step_0/1/2, average, slice, ... (missing ones = 0,0,0)."""
    recon_matrix = recon_matrix or enc_matrix
    limits = limits or {}
    names = ('kspace_encoding_step_0', 'kspace_encoding_step_1', 'kspace_encoding_step_2', 'average', 'slice', 'contrast', 'phase',
             'repetition', 'set', 'segment')
    lim = ''
    for n in names:
        if n == 'kspace_encoding_step_0' and n not in limits:
            continue
        mn, mx, ce = limits.get(n, (0, 0, 0))
        lim += f'<{n}><minimum>{mn}</minimum><maximum>{mx}</maximum><center>{ce}</center></{n}>'
    rc = f'<receiverChannels>{receiver_channels}</receiverChannels>' if receiver_channels is not None else ''
    return ('<?xml version="1.0" encoding="utf-8"?>'
            '<ismrmrdHeader xmlns="http://www.ismrm.org/ISMRMRD" xmlns:xsi="http://www.w3.org/2001/XMLSchema-instance" '
            'xmlns:xs="http://www.w3.org/2001/XMLSchema" xsi:schemaLocation="http://www.ismrm.org/ISMRMRD ismrmrd.xsd">'
            '<experimentalConditions><H1resonanceFrequency_Hz>128000000</H1resonanceFrequency_Hz></experimentalConditions>'
            f'<acquisitionSystemInformation>{rc}</acquisitionSystemInformation>'
            '<encoding>'
            f'<encodedSpace><matrixSize><x>{enc_matrix[0]}</x><y>{enc_matrix[1]}</y><z>{enc_matrix[2]}</z></matrixSize>'
            '<fieldOfView_mm><x>256</x><y>256</y><z>8</z></fieldOfView_mm></encodedSpace>'
            f'<reconSpace><matrixSize><x>{recon_matrix[0]}</x><y>{recon_matrix[1]}</y><z>{recon_matrix[2]}</z></matrixSize>'
            '<fieldOfView_mm><x>128</x><y>256</y><z>8</z></fieldOfView_mm></reconSpace>'
            f'<encodingLimits>{lim}</encodingLimits>'
            f'<trajectory>{trajectory}</trajectory>'
            '</encoding>'
            '<sequenceParameters><TR>8</TR><TE>4</TE><flipAngle_deg>16</flipAngle_deg></sequenceParameters>'
            '</ismrmrdHeader>')


def data_value(aid: int, c: int, j: int) -> complex:
    return complex(aid * 64 + c * 16 + j, aid)


def traj_value(aid: int, d: int, j: int) -> int:
    return aid * 64 + d * 16 + j


def write_file(path, acqs: list[dict], n_k0: int = 4, header_xml: str | None = None, traj_dims: int = 3,
               data_fn=None) -> Path:
    """acqs: file-order list of dicts {id, labels: {name: int}, flags: int bitmask, coils: int, center: int (optional),
    n_k0: int (optional, overrides), discard_pre/discard_post (optional)}.  Returns the path."""
    import ismrmrd
    path = Path(path)
    path.parent.mkdir(parents=True, exist_ok=True)
    if path.exists():
        path.unlink()
    ds = ismrmrd.Dataset(str(path), 'dataset', create_if_needed=True)
    ds.write_xml_header((header_xml or xml_header()).encode())
    for a in acqs:
        aid = int(a['id'])
        nk0 = int(a.get('n_k0', n_k0))
        nc = int(a.get('coils', 1))
        assert nk0 <= 16 and nc <= 4 and aid < 2 ** 17
        acq = ismrmrd.Acquisition()
        acq.resize(nk0, nc, trajectory_dimensions=traj_dims)
        for name, v in a.get('labels', {}).items():
            if name.startswith('user'):
                acq.idx.user[int(name[4:])] = int(v)
            else:
                setattr(acq.idx, _ISMRMRD_NAME.get(name, name), int(v))
        acq.idx.segment = int(a.get('segment', 0))
        acq.center_sample = int(a.get('center', nk0 // 2))
        acq.scan_counter = aid
        off = int(a.get('stamp_offset', 0))     # uint32 fields: offsets up to 2**32 - 2**18 exercise the full unsigned range
        acq.acquisition_time_stamp = aid + off
        acq.measurement_uid = aid + off
        acq.physiology_time_stamp[:] = (aid + off, aid + 1 + off, aid + 2 + off)
        acq.position[:] = (aid, 2 * aid, 3 * aid)
        acq.patient_table_position[:] = (3 * aid, aid, 2 * aid)
        acq.user_int[0] = aid
        acq.user_float[0] = aid
        acq.discard_pre = int(a.get('discard_pre', 0))
        acq.discard_post = int(a.get('discard_post', 0))
        acq.sample_time_us = 2.0
        acq.available_channels = nc
        rd, pd, sd = FRAMES[aid % len(FRAMES)]
        acq.read_dir[:] = rd
        acq.phase_dir[:] = pd
        acq.slice_dir[:] = sd
        acq.clear_all_flags() if hasattr(acq, 'clear_all_flags') else None
        acq._head.flags = int(a.get('flags', 0))
        if data_fn is None:
            acq.data[:] = np.array([[data_value(aid, c, j) for j in range(nk0)] for c in range(nc)], dtype=np.complex64)
        else:
            acq.data[:] = np.asarray(data_fn(a, nc, nk0), dtype=np.complex64)
        if traj_dims:
            acq.traj[:] = np.array([[traj_value(aid, d, j) for d in range(traj_dims)] for j in range(nk0)], dtype=np.float32)
        ds.append_acquisition(acq)
    ds.close()
    return path


def remove(path):
    try:
        os.unlink(path)
    except OSError:
        pass
