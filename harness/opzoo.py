"""A zoo of linear operators of mrpro: seeded configuration generators, constructors, dense matrices from basis
vectors, independent numpy references (the documented action) and Gallina expressions of the Coq models.

A configuration is a JSON-serialisable dict {'cls': ..., ...}.  Used by the checks of C01, C02, C05, C09.
All numeric content is small (Gaussian) integers so that float64/complex128 arithmetic is exact.
"""
from __future__ import annotations

import itertools
import math

import numpy as np
import torch

from vlib import glit, glist, natlit, zlit

PREAMBLE = ('From MrVerif Require Import Base.Prelude Base.StarRing Base.Sums Model.OpAlg Model.ElemOps Model.Exec.\n'
            'Local Open Scope nat_scope.')


def prod(xs):
    p = 1
    for x in xs:
        p *= int(x)
    return p


def rand_gauss(rng, n, lo=-3, hi=3, real=False):
    return [[rng.randint(lo, hi), 0 if real else rng.randint(lo, hi)] for _ in range(n)]


def to_c(lst, shape):
    a = np.array([complex(r, i) for r, i in lst], dtype=np.complex128).reshape(shape)
    return torch.from_numpy(a)


# ------------------------------------------------------------------------------------------------
# generators
# ------------------------------------------------------------------------------------------------
def gen_zeropad(rng):
    nd = rng.randint(1, 4)
    shape = [rng.randint(1, 5) for _ in range(nd)]
    while prod(shape) > 60:
        shape[rng.randrange(nd)] = 1
    k = rng.randint(1, min(nd, 3))
    axes = rng.sample(range(nd), k)
    new = [rng.randint(1, 7) for _ in axes]
    dims = [a if rng.random() < 0.5 else a - nd for a in axes]
    return {'cls': 'ZeroPadOp', 'shape': shape, 'axes': axes, 'dims': dims, 'new': new}


def gen_einsum(rng):
    kind = rng.choice(['mv', 'mv', 'batched', 'transposed', 'dcf'])
    if kind == 'mv':
        m, n = rng.randint(1, 5), rng.randint(1, 5)
        return {'cls': 'EinsumOp', 'kind': kind, 'rule': '... i j, ... j -> ... i', 'mshape': [m, n], 'xshape': [n],
                'matrix': rand_gauss(rng, m * n)}
    if kind == 'batched':
        b, m, n = rng.randint(2, 3), rng.randint(1, 4), rng.randint(1, 4)
        return {'cls': 'EinsumOp', 'kind': kind, 'rule': '... i j, ... j -> ... i', 'mshape': [b, m, n], 'xshape': [b, n],
                'matrix': rand_gauss(rng, b * m * n)}
    if kind == 'transposed':
        m, n = rng.randint(1, 4), rng.randint(1, 4)
        return {'cls': 'EinsumOp', 'kind': kind, 'rule': 'i j, i k -> k j', 'mshape': [m, n], 'xshape': [m, 2],
                'matrix': rand_gauss(rng, m * n)}
    sh = [rng.randint(1, 3), rng.randint(1, 3), rng.randint(1, 4)]
    c = rng.randint(1, 2)
    return {'cls': 'EinsumOp', 'kind': kind, 'rule': '... k2 k1 k0 ,... coil k2 k1 k0 ->... coil k2 k1 k0', 'mshape': sh,
            'xshape': [c, *sh], 'matrix': rand_gauss(rng, prod(sh))}


def gen_sens(rng):
    other = rng.choice([1, 1, 2])
    coils = rng.randint(1, 3)
    zyx = [rng.randint(1, 2), rng.randint(1, 3), rng.randint(1, 4)]
    return {'cls': 'SensitivityOp', 'other': other, 'coils': coils, 'zyx': zyx, 'csm': rand_gauss(rng, coils * prod(zyx))}


def gen_dcf(rng):
    sh = [rng.randint(1, 2), rng.randint(1, 3), rng.randint(1, 4)]
    coils = rng.randint(1, 2)
    return {'cls': 'DensityCompensationOp', 'shape': sh, 'coils': coils, 'dcf': rand_gauss(rng, prod(sh), 0, 4, real=rng.random() < 0.7)}


def gen_cart(rng):
    nz = rng.choice([1, 1, 2, 3])
    ny, nx = rng.randint(2, 5), rng.randint(2, 5)
    style = rng.choice(['full', 'shuffled', 'undersampled', 'duplicates', 'outside', 'dense', 'shifted'])

    def axis_samples(n, style):
        full = [i - n // 2 for i in range(n)]
        if n == 1:
            return [0]
        if style == 'full':
            return full
        if style == 'shuffled':
            rng.shuffle(full)
            return full
        if style == 'undersampled':
            k = rng.randint(2, n)  # a single sample would make the axis a singleton (no reordering along it)
            return sorted(rng.sample(full, k))
        if style == 'duplicates':
            s = full + [rng.choice(full) for _ in range(rng.randint(1, 2))]
            rng.shuffle(s)
            return s
        if style == 'outside':
            s = full + [rng.choice([-n // 2 - 1, n - n // 2, n])]
            rng.shuffle(s)
            return s
        if style == 'shifted':
            # the full ascending range moved by one or two samples: still sorted and of full size, partly outside
            d = rng.choice([-2, -1, 1, 2])
            return [v + d for v in full]
        return full
    if style == 'dense':
        # a dense (non-broadcast) trajectory: arbitrary list of points, duplicates possible
        k2, k1, k0 = (1 if nz == 1 else rng.randint(1, 2)), rng.randint(1, 3), rng.randint(2, 4)
        pts = [[rng.randint(-(nz // 2), nz - nz // 2 - 1), rng.randint(-(ny // 2), ny - ny // 2 - 1), rng.randint(-(nx // 2), nx - nx // 2 - 1)]
               for _ in range(k2 * k1 * k0)]
        return {'cls': 'CartesianSamplingOp', 'enc': [nz, ny, nx], 'style': style, 'tshape': [k2, k1, k0], 'points': pts,
                'coils': rng.randint(1, 2), 'has_duplicates': len({tuple(p) for p in pts}) < len(pts)}
    if style == 'shifted':
        ax = rng.choice([0, 1, 2] if nz > 1 else [1, 2])
        kz, ky, kx = (axis_samples(n, 'shifted' if i == ax else 'full') for i, n in enumerate((nz, ny, nx)))
    else:
        kz, ky, kx = axis_samples(nz, rng.choice(['full', style])), axis_samples(ny, style), axis_samples(nx, rng.choice(['full', style]))
    pts = [[a, b, c] for a in kz for b in ky for c in kx]
    return {'cls': 'CartesianSamplingOp', 'enc': [nz, ny, nx], 'style': style, 'tshape': [len(kz), len(ky), len(kx)],
            'kz': kz, 'ky': ky, 'kx': kx, 'points': pts, 'coils': rng.randint(1, 2),
            'has_duplicates': len({tuple(p) for p in pts}) < len(pts)}


def fixed_cart_cases():
    """deterministic corner cases of CartesianSamplingOp that every run exercises"""
    out = []

    def mk(enc, kz, ky, kx, style):
        pts = [[a, b, c] for a in kz for b in ky for c in kx]
        return {'cls': 'CartesianSamplingOp', 'enc': list(enc), 'style': style, 'tshape': [len(kz), len(ky), len(kx)], 'kz': kz, 'ky': ky, 'kx': kx,
                'points': pts, 'coils': 1, 'has_duplicates': len({tuple(p) for p in pts}) < len(pts)}
    full = lambda n: [i - n // 2 for i in range(n)]  # noqa: E731
    # full-size ascending range shifted along the slowest axis (still sorted, partly outside the encoding matrix)
    out.append(mk((3, 2, 2), [v + 1 for v in full(3)], full(2), full(2), 'shifted'))
    out.append(mk((1, 4, 3), [0], [v + 1 for v in full(4)], full(3), 'shifted'))
    out.append(mk((1, 3, 4), [0], [v - 1 for v in full(3)], full(4), 'shifted'))
    out.append(mk((1, 2, 4), [0], full(2), [v + 2 for v in full(4)], 'shifted'))
    # a phase-encoding line acquired twice
    out.append(mk((1, 3, 2), [0], [-1, 0, 0, 1], full(2), 'duplicates'))
    # descending order
    out.append(mk((1, 3, 3), [0], full(3)[::-1], full(3), 'shuffled'))
    # as many samples as grid points, ascending, but one grid point twice and another one never (not a permutation of the grid)
    out.append(mk((1, 1, 8), [0], [0], [-4, -3, -2, -1, 0, 0, 1, 2], 'full_count_duplicate'))
    out.append(mk((1, 4, 2), [0], [-2, -1, 0, 0], full(2), 'full_count_duplicate'))
    out.append(mk((1, 1, 6), [0], [0], [0, 0, 0, 0, 0, 0], 'full_count_duplicate'))
    out.append(mk((2, 3, 2), [-1, -1], full(3), full(2), 'full_count_duplicate'))
    return out


def gen_findiff(rng):
    nd = rng.choice([1, 2, 2, 3, 3])  # rank 1 raised in filter_separable before the repair
    shape = [rng.randint(1, 5) for _ in range(nd)]
    while prod(shape) > 48:
        shape[rng.randrange(nd)] = 2
    k = rng.randint(1, min(nd, 2))
    axes = rng.sample(range(nd), k)
    dims = [a if rng.random() < 0.5 else a - nd for a in axes]
    return {'cls': 'FiniteDifferenceOp', 'shape': shape, 'axes': axes, 'dims': dims, 'mode': rng.choice(['forward', 'backward', 'central']),
            'pad_mode': rng.choice(['zeros', 'circular']), 'rank': nd}


def gen_rearrange(rng):
    pats = [('a b c -> c a b', {}, 3), ('a b -> b a', {}, 2), ('a (b c) -> (c a) b', {'b': 2}, None), ('... a b -> ... (b a)', {'a': None, 'b': None}, 3),
            ('a b c -> (a c) b', {}, 3)]
    pat, info, nd = rng.choice(pats)
    if pat == 'a (b c) -> (c a) b':
        b, c, a = 2, rng.randint(1, 3), rng.randint(1, 3)
        return {'cls': 'RearrangeOp', 'pattern': pat, 'info': {'b': 2}, 'adj_info': {'b': 2, 'c': c, 'a': a}, 'shape': [a, b * c]}
    shape = [rng.randint(1, 4) for _ in range(nd)]
    if pat == '... a b -> ... (b a)':
        return {'cls': 'RearrangeOp', 'pattern': pat, 'info': {'a': shape[-2], 'b': shape[-1]}, 'shape': shape}
    if pat == 'a b c -> (a c) b':
        return {'cls': 'RearrangeOp', 'pattern': pat, 'info': {'a': shape[0], 'c': shape[2]}, 'shape': shape}
    return {'cls': 'RearrangeOp', 'pattern': pat, 'info': {}, 'shape': shape}


def gen_fft(rng):
    nd = rng.randint(1, 3)
    shape = [rng.randint(1, 5) for _ in range(nd)]
    while prod(shape) > 40:
        shape[rng.randrange(nd)] = 2
    k = rng.randint(1, nd)
    axes = rng.sample(range(nd), k)
    dims = [a if rng.random() < 0.5 else a - nd for a in axes]
    cfg = {'cls': 'FastFourierOp', 'shape': shape, 'axes': axes, 'dims': dims}
    if rng.random() < 0.5:
        cfg['recon'] = [shape[a] for a in axes]
        cfg['enc'] = [rng.randint(1, 7) for _ in axes]
    return cfg


def gen_wavelet(rng):
    fam = rng.choice(['haar', 'db2', 'db3', 'sym2', 'coif1', 'bior1.1', 'bior2.2', 'rbio1.3', 'db4', 'sym3'])
    nd = rng.choice([1, 2, 2, 3])
    dom = [rng.choice([4, 6, 8]) for _ in range(nd)] if nd < 3 else [4, rng.choice([4, 6]), 4]     # 3-D: 64 .. 96 unknowns
    batch = rng.choice([[], [2]]) if nd < 3 else []
    level = rng.choice([1, 1, 2, None])
    if nd == 3 and level is None:
        level = 1       # 3-D with a zero maximal level is open finding KF-07 (kept as a fixed case of C01's wavelet family)
    return {'cls': 'WaveletOp', 'wavelet': fam, 'domain': dom, 'batch': batch, 'level': level, 'complex': rng.random() < 0.5}


def gen_pca(rng):
    joint, comp, n = rng.randint(3, 6), rng.randint(2, 4), 1
    n = rng.randint(1, comp)
    return {'cls': 'PCACompressionOp', 'joint': joint, 'comp': comp, 'n': n, 'data': rand_gauss(rng, joint * comp, -4, 4), 'other': rng.choice([[], [2]])}


def gen_grid(rng):
    dim = rng.choice([2, 3])
    inp = [rng.randint(2, 3) if dim == 3 else 1, rng.randint(2, 4), rng.randint(2, 4)]
    out = [rng.randint(1, 3) for _ in range(dim)]
    B = rng.choice([1, 1, 2, 3])
    B2 = rng.choice([0, 0, 0, 2, 3])      # a second batch dimension of the grid (0: none); size 2 collides with the (real, imag) helper axis if misplaced
    n = B * max(B2, 1) * prod(out) * dim
    wide = rng.random() < 0.5   # half of the grids reach well outside [-1, 1] (padding modes only matter there)
    grid = [rng.randint(-20, 20) / 8 if wide else rng.randint(-10, 10) / 8 for _ in range(n)]
    return {'cls': 'GridSamplingOp', 'dim': dim, 'input': inp, 'out': out, 'B': B, 'B2': B2, 'grid': grid,
            'interp': rng.choice(['bilinear', 'nearest', 'bicubic'] if dim == 2 else ['bilinear', 'nearest']),
            'pad': rng.choice(['zeros', 'border', 'reflection']), 'align': rng.random() < 0.5, 'complex': rng.random() < 0.5,
            'channels': rng.choice([1, 2])}


def gen_slice(rng):
    n = rng.choice([4, 5, 6])
    return {'cls': 'SliceProjectionOp', 'n': [n, rng.choice([n, n + 1]), n], 'rot': rng.choice(['id', 'x90', 'quat']),
            'quat': [rng.randint(-3, 3) for _ in range(4)] or [0, 0, 0, 1], 'shift': rng.choice([0.0, 1.0, -0.5]),
            'width': rng.choice([1.0, 2.0, 3.0]), 'complex': rng.random() < 0.5, 'vol_batch': rng.choice([[], [], [2], [3]])}


GENERATORS = {
    'ZeroPadOp': gen_zeropad, 'EinsumOp': gen_einsum, 'SensitivityOp': gen_sens, 'DensityCompensationOp': gen_dcf,
    'CartesianSamplingOp': gen_cart, 'FiniteDifferenceOp': gen_findiff, 'RearrangeOp': gen_rearrange, 'FastFourierOp': gen_fft,
    'WaveletOp': gen_wavelet, 'PCACompressionOp': gen_pca, 'GridSamplingOp': gen_grid, 'SliceProjectionOp': gen_slice,
}
MODELLED = ('ZeroPadOp', 'EinsumOp', 'SensitivityOp', 'DensityCompensationOp', 'CartesianSamplingOp', 'FiniteDifferenceOp', 'RearrangeOp')


# ------------------------------------------------------------------------------------------------
# constructors: (operator, input shape, dtype)
# ------------------------------------------------------------------------------------------------
def build(cfg):
    import mrpro.operators as ops
    from mrpro.data import KTrajectory, Rotation, SpatialDimension
    cls = cfg['cls']
    if cls == 'tree':        # derived operators (sums, compositions, scalings, .H of EinsumOp / IdentityOp leaves), see props/C01.py
        from props import C01
        return C01._build_tree(cfg['tree']), [cfg['n']]
    if cls == 'ZeroPadOp':
        orig = [cfg['shape'][a] for a in cfg['axes']]
        return ops.ZeroPadOp(dim=cfg['dims'], original_shape=orig, padded_shape=cfg['new']), cfg['shape']
    if cls == 'EinsumOp':
        return ops.EinsumOp(to_c(cfg['matrix'], cfg['mshape']), cfg['rule']), cfg['xshape']
    if cls == 'SensitivityOp':
        return ops.SensitivityOp(to_c(cfg['csm'], [cfg['coils'], *cfg['zyx']])), [cfg['other'], 1, *cfg['zyx']]
    if cls == 'DensityCompensationOp':
        return ops.DensityCompensationOp(to_c(cfg['dcf'], cfg['shape'])), [cfg['coils'], *cfg['shape']]
    if cls == 'CartesianSamplingOp':
        nz, ny, nx = cfg['enc']
        if cfg['style'] == 'dense':
            p = torch.tensor(cfg['points'], dtype=torch.float64).reshape(1, *cfg['tshape'], 3)
            traj = KTrajectory(p[..., 0], p[..., 1], p[..., 2], repeat_detection_tolerance=None)
        else:
            kz = torch.tensor(cfg['kz'], dtype=torch.float64).reshape(1, -1, 1, 1)
            ky = torch.tensor(cfg['ky'], dtype=torch.float64).reshape(1, 1, -1, 1)
            kx = torch.tensor(cfg['kx'], dtype=torch.float64).reshape(1, 1, 1, -1)
            traj = KTrajectory(kz, ky, kx, repeat_detection_tolerance=None)
        return ops.CartesianSamplingOp(SpatialDimension(nz, ny, nx), traj), [1, cfg['coils'], nz, ny, nx]
    if cls == 'FiniteDifferenceOp':
        return ops.FiniteDifferenceOp(dim=tuple(cfg['dims']), mode=cfg['mode'], pad_mode=cfg['pad_mode']), cfg['shape']
    if cls == 'RearrangeOp':
        from mrpro.operators.RearrangeOp import RearrangeOp  # not exported by mrpro.operators
        return RearrangeOp(cfg['pattern'], cfg.get('adj_info', cfg['info']) or None), cfg['shape']
    if cls == 'FastFourierOp':
        if 'enc' in cfg:
            return ops.FastFourierOp(dim=tuple(cfg['dims']), recon_matrix=cfg['recon'], encoding_matrix=cfg['enc']), cfg['shape']
        return ops.FastFourierOp(dim=tuple(cfg['dims'])), cfg['shape']
    if cls == 'WaveletOp':
        nd = len(cfg['domain'])
        return (ops.WaveletOp(domain_shape=cfg['domain'], dim=tuple(range(-nd, 0)), wavelet_name=cfg['wavelet'], level=cfg['level']),
                [*cfg['batch'], *cfg['domain']])
    if cls == 'PCACompressionOp':
        data = to_c(cfg['data'], [cfg['joint'], cfg['comp']])
        if cfg['other']:
            data = torch.stack([data, data.flip(0) * 1j + 1])
        return ops.PCACompressionOp(data, cfg['n']), [*cfg['other'], cfg['joint'], cfg['comp']]
    if cls == 'GridSamplingOp':
        dim = cfg['dim']
        bshape = [cfg['B']] + ([cfg['B2']] if cfg.get('B2') else [])      # one or two batch dimensions of the grid
        grid = torch.tensor(cfg['grid'], dtype=torch.float64).reshape(*bshape, *cfg['out'], dim)
        op = ops.GridSamplingOp(grid, SpatialDimension(*cfg['input']), cfg['interp'], cfg['pad'], cfg['align'])
        return op, [*bshape, cfg['channels'], *cfg['input'][-dim:]]
    if cls == 'SliceProjectionOp':
        if cfg['rot'] == 'id':
            rot = None
        elif cfg['rot'] == 'x90':
            rot = Rotation.from_euler('x', 90, degrees=True)
        else:
            q = cfg['quat'] if any(cfg['quat']) else [0, 0, 0, 1]
            rot = Rotation.from_quat(torch.tensor(q, dtype=torch.float64))
        op = ops.SliceProjectionOp(SpatialDimension(*cfg['n']), slice_rotation=rot, slice_shift=cfg['shift'], slice_profile=cfg['width'])
        return op, [*cfg.get('vol_batch', []), *cfg['n']]
    raise KeyError(cls)


def is_complex(cfg):
    return cfg.get('complex', True)


def dtype_of(cfg):
    if cfg['cls'] == 'SliceProjectionOp':
        return torch.complex64 if is_complex(cfg) else torch.float32
    return torch.complex128 if is_complex(cfg) else torch.float64


def dense(op, in_shape, dtype=torch.complex128):
    """F[:, j] = vec(op(e_j)), G[:, i] = vec(op.adjoint(e_i)); returns (F, G, out_shape)."""
    n = prod(in_shape)
    cols = []
    out_shape = None
    for j in range(n):
        e = torch.zeros(n, dtype=dtype)
        e[j] = 1
        ein = e.reshape(in_shape)
        (y,) = op(ein)
        if float(ein.abs().sum()) != 1.0 or ein.reshape(-1)[j] != 1:
            raise AssertionError(f'forward modified its input tensor (basis vector {j})')
        out_shape = list(y.shape)
        cols.append(y.reshape(-1).to(torch.complex128))
    F = torch.stack(cols, dim=1)
    m = F.shape[0]
    cols = []
    for i in range(m):
        e = torch.zeros(m, dtype=dtype)
        e[i] = 1
        ein = e.reshape(out_shape)
        (x,) = op.adjoint(ein)
        if float(ein.abs().sum()) != 1.0 or ein.reshape(-1)[i] != 1:
            raise AssertionError(f'adjoint modified its input tensor (basis vector {i})')
        cols.append(x.reshape(-1).to(torch.complex128))
    G = torch.stack(cols, dim=1)
    return F.numpy(), G.numpy(), out_shape


# ------------------------------------------------------------------------------------------------
# independent numpy references of the documented action (dense forward matrix), for C09
# ------------------------------------------------------------------------------------------------
def reference_matrix(cfg):
    cls = cfg['cls']
    if cls == 'ZeroPadOp':
        shape = list(cfg['shape'])
        new_shape = list(shape)
        for a, n in zip(cfg['axes'], cfg['new']):
            new_shape[a] = n
        M = np.zeros((prod(new_shape), prod(shape)))
        for idx in itertools.product(*[range(s) for s in shape]):
            tgt = []
            ok = True
            for a, (i, o, n) in enumerate(zip(idx, shape, new_shape)):
                j = i + (n // 2 - o // 2)  # the centre sample o//2 goes to n//2
                if not 0 <= j < n:
                    ok = False
                tgt.append(j)
            if ok:
                M[np.ravel_multi_index(tgt, new_shape), np.ravel_multi_index(idx, shape)] = 1
        return M
    if cls == 'EinsumOp':
        A = to_c(cfg['matrix'], cfg['mshape']).numpy()
        n = prod(cfg['xshape'])
        cols = []
        rule = cfg['rule'].replace(' ', '')
        # translate the einops-style rule to numpy einsum with single letters
        names = {}
        def tr(part):
            out = ''
            toks = cfg_tokens(part)
            for t in toks:
                if t == '...':
                    out += '...'
                else:
                    names.setdefault(t, chr(ord('a') + len(names)))
                    out += names[t]
            return out
        lhs, rhs = cfg['rule'].split('->')
        p1, p2 = lhs.split(',')
        np_rule = f'{tr(p1)},{tr(p2)}->{tr(rhs)}'
        for j in range(n):
            e = np.zeros(n, dtype=np.complex128)
            e[j] = 1
            cols.append(np.einsum(np_rule, A, e.reshape(cfg['xshape'])).reshape(-1))
        return np.stack(cols, axis=1)
    if cls == 'SensitivityOp':
        csm = to_c(cfg['csm'], [cfg['coils'], prod(cfg['zyx'])]).numpy()
        npix, other, coils = prod(cfg['zyx']), cfg['other'], cfg['coils']
        M = np.zeros((other * coils * npix, other * npix), dtype=np.complex128)
        for o in range(other):
            for c in range(coils):
                for r in range(npix):
                    M[(o * coils + c) * npix + r, o * npix + r] = csm[c, r]
        return M
    if cls == 'DensityCompensationOp':
        d = to_c(cfg['dcf'], [prod(cfg['shape'])]).numpy()
        return np.diag(np.tile(d, cfg['coils']))
    if cls == 'CartesianSamplingOp':
        nz, ny, nx = cfg['enc']
        ns, coils = len(cfg['points']), cfg['coils']
        M = np.zeros((coils * ns, coils * nz * ny * nx))
        for c in range(coils):
            for s, (kz, ky, kx) in enumerate(cfg['points']):
                iz, iy, ix = kz + nz // 2, ky + ny // 2, kx + nx // 2
                if 0 <= iz < nz and 0 <= iy < ny and 0 <= ix < nx:
                    M[c * ns + s, c * nz * ny * nx + (iz * ny + iy) * nx + ix] = 1
        return M
    if cls == 'FiniteDifferenceOp':
        shape = cfg['shape']
        n = prod(shape)
        blocks = []
        for a in cfg['axes']:
            M = np.zeros((n, n))
            for idx in itertools.product(*[range(s) for s in shape]):
                row = np.ravel_multi_index(idx, shape)
                L = shape[a]

                def at(off, w):
                    j = idx[a] + off
                    if cfg['pad_mode'] == 'circular':
                        j %= L
                    elif not 0 <= j < L:
                        return
                    t = list(idx)
                    t[a] = j
                    M[row, np.ravel_multi_index(t, shape)] += w
                if cfg['mode'] == 'forward':
                    at(1, 1.0), at(0, -1.0)
                elif cfg['mode'] == 'backward':
                    at(0, 1.0), at(-1, -1.0)
                else:
                    at(1, 0.5), at(-1, -0.5)
            blocks.append(M)
        return np.concatenate(blocks, axis=0)
    if cls == 'RearrangeOp':
        import einops
        n = prod(cfg['shape'])
        idx = np.arange(n).reshape(cfg['shape'])
        out = einops.rearrange(idx, cfg['pattern'], **(cfg['info'] or {})).reshape(-1)
        M = np.zeros((n, n))
        M[np.arange(n), out] = 1
        return M
    return None


def cfg_tokens(part):
    part = part.strip()
    toks, i = [], 0
    while i < len(part):
        if part.startswith('...', i):
            toks.append('...')
            i += 3
        elif part[i].isspace():
            i += 1
        else:
            j = i
            while j < len(part) and (part[j].isalnum() or part[j] == '_'):
                j += 1
            toks.append(part[i:j])
            i = j
    return toks


# ------------------------------------------------------------------------------------------------
# Gallina expressions (linop GRing) of the Coq models; data scaled so that everything is a Gaussian integer
# ------------------------------------------------------------------------------------------------
def coq_linop(cfg):
    """Returns (expr, scale): the model computes scale * operator (scale 2 for the central stencil)."""
    cls = cfg['cls']
    if cls == 'ZeroPadOp':
        shape = list(cfg['shape'])
        expr = f'idop (R:=GRing) {natlit(prod(shape))}'
        for a, n in zip(cfg['axes'], cfg['new']):
            pre, post = prod(shape[:a]), prod(shape[a + 1:])
            expr = f'comp (along {natlit(pre)} {natlit(post)} (zeropad_op (R:=GRing) {natlit(shape[a])} {natlit(n)})) ({expr})'
            shape[a] = n
        return expr, 1
    if cls in ('EinsumOp', 'DensityCompensationOp', 'SensitivityOp', 'CartesianSamplingOp', 'RearrangeOp', 'FiniteDifferenceOp'):
        if cls == 'EinsumOp' and cfg['kind'] == 'mv':
            m, n = cfg['mshape']
            rows = [cfg['matrix'][i * n:(i + 1) * n] for i in range(m)]
            return f'matop (R:=GRing) {natlit(m)} {natlit(n)} (gmat [{"; ".join(glist(r) for r in rows)}])', 1
        if cls == 'EinsumOp' and cfg['kind'] == 'dcf':
            d = cfg['matrix'] * cfg['xshape'][0]
            return f'diag_op (R:=GRing) {natlit(len(d))} (gvec {glist(d)})', 1
        if cls == 'EinsumOp':
            M = reference_matrix(cfg)
            rows = [[[int(v.real), int(v.imag)] for v in r] for r in M]
            return f'matop (R:=GRing) {natlit(M.shape[0])} {natlit(M.shape[1])} (gmat [{"; ".join(glist(r) for r in rows)}])', 1
        if cls == 'DensityCompensationOp':
            d = cfg['dcf'] * cfg['coils']
            return f'diag_op (R:=GRing) {natlit(len(d))} (gvec {glist(d)})', 1
        if cls == 'SensitivityOp':
            npix = prod(cfg['zyx'])
            rows = [cfg['csm'][c * npix:(c + 1) * npix] for c in range(cfg['coils'])]
            inner = f'sens_op (R:=GRing) {natlit(cfg["coils"])} {natlit(npix)} (gmat [{"; ".join(glist(r) for r in rows)}])'
            return f'along {natlit(cfg["other"])} 1%nat ({inner})', 1
        if cls == 'CartesianSamplingOp':
            nz, ny, nx = cfg['enc']
            ks = '[' + '; '.join(f'({zlit(a)}, {zlit(b)}, {zlit(c)})' for a, b, c in cfg['points']) + ']'
            # coil axis is a batch axis in front of the (flattened) k-space axes: block structure, modelled per coil by `along`
            inner = f'cart_op {zlit(nz)} {zlit(ny)} {zlit(nx)} {ks}'
            return f'along {natlit(cfg["coils"])} 1%nat ({inner})', 1
        if cls == 'RearrangeOp':
            import einops
            n = prod(cfg['shape'])
            idx = np.arange(n).reshape(cfg['shape'])
            p = einops.rearrange(idx, cfg['pattern'], **(cfg['info'] or {})).reshape(-1).tolist()
            q = [0] * n
            for i, v in enumerate(p):
                q[v] = i
            pl = '[' + '; '.join(natlit(v) for v in p) + ']'
            ql = '[' + '; '.join(natlit(v) for v in q) + ']'
            return f'perm_op (R:=GRing) {natlit(n)} (natfun {pl}) (natfun {ql})', 1
        if cls == 'FiniteDifferenceOp':
            shape = cfg['shape']
            kern = {'forward': '(0,0)%Z (-1,0)%Z (1,0)%Z', 'backward': '(-1,0)%Z (1,0)%Z (0,0)%Z', 'central': '(-1,0)%Z (0,0)%Z (1,0)%Z'}[cfg['mode']]
            circ = 'true' if cfg['pad_mode'] == 'circular' else 'false'
            parts = []
            for a in cfg['axes']:
                pre, post = prod(shape[:a]), prod(shape[a + 1:])
                parts.append(f'along {natlit(pre)} {natlit(post)} (findiff_op (R:=GRing) {circ} {natlit(shape[a])} {kern})')
            expr = parts[-1]
            for p in reversed(parts[:-1]):
                expr = f'vstack ({p}) ({expr})'
            return expr, (2 if cfg['mode'] == 'central' else 1)
    return None, 1
