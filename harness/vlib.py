"""Shared machinery of the mrpro verification harness (see /verif/DESIGN.md section 2 and harness/README.md).

A property module (harness/props/Cxx.py) declares FAMILIES: a list of Family objects.  A *case* is a
JSON-serialisable dict of arguments.  For each family the driver
  1. draws cases from the family's generator (one PRNG seeded by VERIF_SEED),
  2. runs the implementation (/repo/src) on each case             -> impl observation (JSON)
  3. evaluates the Coq model on the same cases with vm_compute    -> model value (parsed Coq term)
  4. compares both (correspondence) and applies the property's own oracle to the implementation's
     observation (a direct check of the property statement, used as the failing-input search).
Anything that differs is matched against known_findings.json and otherwise reported as VIOLATION.
"""
from __future__ import annotations

import dataclasses
import fcntl
import hashlib
import json
import os
import random
import re
import shutil
import subprocess
import sys
import time
import traceback
from fractions import Fraction
from pathlib import Path
from typing import Any, Callable

VERIF = Path(__file__).resolve().parent.parent
COQ = VERIF / 'coq'
REPO = Path(os.environ.get('VERIF_REPO', '/repo'))  # scratch worktrees can be checked with VERIF_REPO=<dir>
WORK = VERIF / '.work'
COQC_TIMEOUT = 600


# ----------------------------------------------------------------------------------------------
# Coq term printing / parsing
# ----------------------------------------------------------------------------------------------
def zlit(n: int) -> str:
    n = int(n)
    return f'({n})%Z' if n < 0 else f'{n}%Z'


def natlit(n: int) -> str:
    assert 0 <= n < 5000, 'nat literals must stay small'
    return f'{int(n)}%nat'


def zlist(xs) -> str:
    return '[' + '; '.join(zlit(x) for x in xs) + ']'


def natlist(xs) -> str:
    return '[' + '; '.join(natlit(x) for x in xs) + ']'


def glit(c) -> str:
    """Gaussian integer literal (pair of Z) from a python complex/int/tuple."""
    if isinstance(c, (tuple, list)):
        re_, im = c
    else:
        c = complex(c)
        re_, im = c.real, c.imag
    assert float(re_).is_integer() and float(im).is_integer(), c
    return f'({zlit(int(re_))}, {zlit(int(im))})'


def glist(xs) -> str:
    return '[' + '; '.join(glit(x) for x in xs) + ']'


def qlit(fr) -> str:
    """Q literal num # den from a Fraction / int / exact float."""
    fr = Fraction(fr)
    return f'({zlit(fr.numerator)} # {fr.denominator})%Q' if fr.numerator >= 0 else f'(({fr.numerator}) # {fr.denominator})%Q'


def boollit(b) -> str:
    return 'true' if b else 'false'


def optlit(x, f) -> str:
    return 'None' if x is None else f'(Some {f(x)})'


_TOKEN = re.compile(r'\s*(\[|\]|\(|\)|;|,|#|-?\d+|[A-Za-z_][A-Za-z_0-9\.\']*|%[A-Za-z_]+)')


class CoqParseError(Exception):
    pass


def parse_coq(s: str):
    """Parse a printed Coq value made of numerals, lists, tuples, Some/None, booleans, Q (n # d),
    and constructor applications.  Returns python ints, lists, tuples, None, bools, Fractions,
    ('Some', x) is returned as {'some': x}; other constructors as (name, [args])."""
    toks = []
    pos = 0
    s = s.strip()
    while pos < len(s):
        m = _TOKEN.match(s, pos)
        if not m:
            raise CoqParseError(f'bad token at {pos}: {s[pos:pos+40]!r}')
        tok = m.group(1)
        pos = m.end()
        if tok.startswith('%'):
            continue  # scope annotations carry no information for us
        toks.append(tok)
    idx = 0

    def peek():
        return toks[idx] if idx < len(toks) else None

    def take(expected=None):
        nonlocal idx
        if idx >= len(toks):
            raise CoqParseError('unexpected end')
        t = toks[idx]
        if expected is not None and t != expected:
            raise CoqParseError(f'expected {expected} got {t}')
        idx += 1
        return t

    def atom():
        t = peek()
        if t == '[':
            take()
            items = []
            if peek() == ']':
                take()
                return items
            while True:
                items.append(expr())
                if peek() == ';':
                    take()
                    continue
                take(']')
                return items
        if t == '(':
            take()
            items = [expr()]
            while peek() == ',':
                take()
                items.append(expr())
            take(')')
            return items[0] if len(items) == 1 else tuple(items)
        if t is None:
            raise CoqParseError('unexpected end')
        if re.fullmatch(r'-?\d+', t):
            take()
            return int(t)
        if t == 'true':
            take()
            return True
        if t == 'false':
            take()
            return False
        if t == 'None':
            take()
            return None
        if t == 'tt':
            take()
            return ()
        if re.fullmatch(r'[A-Za-z_][A-Za-z_0-9\.\']*', t):
            take()
            return ('@', t)
        raise CoqParseError(f'unexpected token {t}')

    def app():
        head = atom()
        if isinstance(head, tuple) and len(head) == 2 and head[0] == '@':
            name = head[1]
            args = []
            while peek() not in (None, ']', ')', ';', ',', '#'):
                a = atom()
                if isinstance(a, tuple) and len(a) == 2 and a[0] == '@':
                    a = (a[1], [])  # nullary constructor as argument
                args.append(a)
            if name == 'Some' and len(args) == 1:
                return {'some': args[0]}
            return (name, args)
        return head

    def expr():
        left = app()
        if peek() == '#':
            take()
            right = app()
            return Fraction(left, right)
        return left

    val = expr()
    if idx != len(toks):
        raise CoqParseError(f'trailing tokens: {toks[idx:idx+5]}')
    return val


# ----------------------------------------------------------------------------------------------
# running Coq
# ----------------------------------------------------------------------------------------------
def _run(cmd, cwd=None, timeout=COQC_TIMEOUT, env=None):
    try:
        p = subprocess.run(cmd, cwd=cwd, capture_output=True, text=True, timeout=timeout, env=env)
        return p.returncode, p.stdout, p.stderr
    except subprocess.TimeoutExpired as e:
        return 124, e.stdout or '', (e.stderr or '') + f'\nTIMEOUT after {timeout}s'


def coq_static_build(targets: list[str] | None = None) -> tuple[bool, str]:
    """(Re)build the committed development (full .vo build).  Only the (re)generation of _CoqProject/Makefile is
    serialised by a lock; the build itself runs unlocked (targets of different properties are disjoint apart from
    already-built shared bases), under a time limit and an address-space limit so that a diverging proof cannot
    block or exhaust the machine."""
    COQ.mkdir(exist_ok=True)
    with open(COQ / '.build.lock', 'w') as lock:
        fcntl.flock(lock, fcntl.LOCK_EX)
        subprocess.run([str(VERIF / 'tools' / 'gen_coqproject.sh')], check=False)
        mk = COQ / 'Makefile'
        proj = COQ / '_CoqProject'
        if not mk.exists() or mk.stat().st_mtime < proj.stat().st_mtime:
            rc, out, err = _run(['coq_makefile', '-f', '_CoqProject', '-o', 'Makefile'], cwd=COQ)
            if rc != 0:
                return False, out + err
    jobs = str(min(8, os.cpu_count() or 4))
    cmd = 'ulimit -v 12000000; exec timeout 1500 make -j ' + jobs + ' ' + ' '.join(targets or [])
    rc, out, err = _run(['bash', '-c', cmd], cwd=COQ, timeout=1600)
    return rc == 0, (out + err)[-6000:]


def coqc_file(path: Path, timeout=COQC_TIMEOUT) -> tuple[int, str, str]:
    """Compile one .v file that lives outside the static project (cases, generated models)."""
    return _run(['timeout', str(timeout), 'coqc', '-Q', str(COQ), 'MrVerif', '-w',
                 '-notation-overridden,-deprecated-hint-without-locality,-ambiguous-paths', str(path.name)],
                cwd=path.parent, timeout=timeout + 10)


_FORBIDDEN = re.compile(r'\b(Admitted|admit|Axiom|Axioms|Parameter|Parameters|Conjecture|Conjectures|Abort All)\b'
                        r'|Unset\s+Guard|bypass_check|type-in-type|impredicative-set|Admit\s+Obligations'
                        r'|Unset\s+Universe\s+Checking|Unset\s+Positivity')


def strip_coq_comments(src: str) -> str:
    out, depth, i = [], 0, 0
    while i < len(src):
        if src.startswith('(*', i):
            depth += 1
            i += 2
        elif src.startswith('*)', i) and depth:
            depth -= 1
            i += 2
        else:
            if not depth:
                out.append(src[i])
            i += 1
    return ''.join(out)


def lint_coq() -> list[str]:
    """Reject anything that would declare an axiom or switch a kernel check off."""
    bad = []
    for f in sorted(COQ.rglob('*.v')):
        src = strip_coq_comments(f.read_text())
        for m in _FORBIDDEN.finditer(src):
            bad.append(f'{f.relative_to(COQ)}: forbidden `{m.group(0)}`')
        # Variable / Hypothesis outside a Section
        depth = 0
        for line in src.splitlines():
            st = line.strip()
            if re.match(r'(Section|Module Type|Module)\s+\w+\s*\.', st) and st.startswith('Section'):
                depth += 1
            elif re.match(r'End\s+\w+\s*\.', st) and depth:
                depth -= 1
            elif depth == 0 and re.match(r'(Variable|Variables|Hypothesis|Hypotheses|Context)\b', st):
                bad.append(f'{f.relative_to(COQ)}: `{st[:40]}` outside a Section')
    return bad


def check_properties_file(prop: str) -> dict:
    """Compile coq/Properties/<prop>.v afresh, return theorem names and the Print Assumptions report."""
    f = COQ / 'Properties' / f'{prop}.v'
    res = {'file': str(f), 'ok': False, 'theorems': [], 'assumptions': {}, 'error': ''}
    if not f.exists():
        res['error'] = 'missing'
        return res
    src = strip_coq_comments(f.read_text())
    res['theorems'] = re.findall(r'^\s*(?:Theorem|Example)\s+([A-Za-z_0-9\']+)', src, flags=re.M)
    rc, out, err = _run(['timeout', str(COQC_TIMEOUT), 'coqc', '-Q', '.', 'MrVerif', '-w',
                         '-notation-overridden,-deprecated-hint-without-locality,-ambiguous-paths',
                         f'Properties/{prop}.v'], cwd=COQ, timeout=COQC_TIMEOUT + 10)
    if rc != 0:
        res['error'] = (err or out)[-3000:]
        return res
    # Print Assumptions output: "Closed under the global context" or "Axioms:\n name : type ..."
    axioms: set[str] = set()
    closed = 0
    blocks = re.split(r'\n(?=Axioms:|Closed under the global context)', '\n' + out)
    for b in blocks:
        b = b.strip()
        if b.startswith('Closed under the global context'):
            closed += 1
        elif b.startswith('Axioms:'):
            for m in re.finditer(r'^([A-Za-z_][A-Za-z_0-9\.\']*)\s*:', b[len('Axioms:'):], flags=re.M):
                axioms.add(m.group(1))
    res['ok'] = True
    res['assumptions'] = {'closed_theorems': closed, 'axioms': sorted(axioms)}
    return res


def coq_eval(workdir: Path, preamble: str, exprs: list[str], shard: int = 300, tag: str = 'cases',
             timeout: int = COQC_TIMEOUT) -> list[Any]:
    """Evaluate expressions with vm_compute inside Coq; returns parsed values (or an Exception per item)."""
    workdir.mkdir(parents=True, exist_ok=True)
    results: list[Any] = [None] * len(exprs)
    shards = [list(range(i, min(i + shard, len(exprs)))) for i in range(0, len(exprs), shard)]
    files = []
    for k, idxs in enumerate(shards):
        p = workdir / f'{tag}_{k}.v'
        lines = [preamble, 'Set Printing Width 100000000.', 'Set Printing Depth 100000000.', 'Unset Printing Notations.' if False else '']
        for i in idxs:
            lines.append(f'Definition case_{i} := {exprs[i]}.')
            lines.append(f'Eval vm_compute in case_{i}.')
        p.write_text('\n'.join(lines) + '\n')
        files.append((p, idxs))
    procs = []
    maxpar = max(1, min(len(files), (os.cpu_count() or 4)))
    pending = list(files)
    running: list = []
    outputs = {}
    while pending or running:
        while pending and len(running) < maxpar:
            p, idxs = pending.pop(0)
            pr = subprocess.Popen(['timeout', str(timeout), 'coqc', '-Q', str(COQ), 'MrVerif', '-w',
                                   '-notation-overridden,-deprecated-hint-without-locality,-ambiguous-paths', p.name],
                                  cwd=workdir, stdout=subprocess.PIPE, stderr=subprocess.PIPE, text=True)
            running.append((pr, p, idxs))
        pr, p, idxs = running.pop(0)
        out, err = pr.communicate()
        outputs[p] = (pr.returncode, out, err, idxs)
    for p, (rc, out, err, idxs) in list(outputs.items()):
        if rc == 124:     # `timeout` expired (machine under load): evaluate this shard once more, alone, with three times the budget
            pr = subprocess.run(['timeout', str(3 * timeout), 'coqc', '-Q', str(COQ), 'MrVerif', '-w',
                                 '-notation-overridden,-deprecated-hint-without-locality,-ambiguous-paths', p.name],
                                cwd=workdir, capture_output=True, text=True)
            rc, out, err = pr.returncode, pr.stdout, pr.stderr
            outputs[p] = (rc, out, err, idxs)
    for p, (rc, out, err, idxs) in outputs.items():
        if rc != 0:
            # find which definition failed from the error location, mark all of the shard as failed
            e = CoqParseError(f'coqc failed on {p.name}: {(err or out)[-1500:]}')
            for i in idxs:
                results[i] = e
            continue
        vals = []
        cur = None
        for line in out.splitlines():
            if line.startswith('     = '):
                cur = [line[len('     = '):]]
            elif line.startswith('     : '):
                if cur is not None:
                    vals.append(' '.join(cur))
                cur = None
            elif cur is not None:
                cur.append(line.strip())
        if len(vals) != len(idxs):
            e = CoqParseError(f'{p.name}: expected {len(idxs)} values, got {len(vals)}')
            for i in idxs:
                results[i] = e
            continue
        for i, v in zip(idxs, vals):
            try:
                results[i] = parse_coq(v)
            except CoqParseError as ex:
                results[i] = ex
    return results


# ----------------------------------------------------------------------------------------------
# Families, context, findings
# ----------------------------------------------------------------------------------------------
@dataclasses.dataclass
class Family:
    """One kind of case for a property.

    gen(rng, tier) -> list of case dicts (JSON-serialisable; must contain everything needed to replay).
    impl(case)     -> JSON-serialisable observation of the implementation (exceptions are caught by the
                      driver and turned into {'raises': <enum>}).
    coq(case)      -> Gallina expression (string) whose vm_compute value is the model's prediction; None
                      if this family has no model side (pure implementation-level oracle).
    compare(case, impl_obs, model_val) -> None if they agree, else a short string (correspondence).
    oracle(case, impl_obs) -> None if the property statement itself holds on this observation, else a
                      short string: a *failing input of the property* on the implementation.
    nontrivial(case) -> bool, counted into distinct_nontrivial.
    descr(case)    -> dict used for known-finding matching (defaults to the case itself).
    """
    name: str
    gen: Callable[[random.Random, str], list[dict]]
    impl: Callable[[dict], Any]
    coq: Callable[[dict], str] | None = None
    preamble: str = ''
    compare: Callable[[dict, Any, Any], str | None] | None = None
    oracle: Callable[[dict, Any], str | None] | None = None
    nontrivial: Callable[[dict], bool] = lambda c: True
    descr: Callable[[dict], dict] | None = None
    shard: int = 300
    theorem: str = ''  # the theorem(s) of Properties/Cxx.v whose model this family ties to the code


_EXC_ENUM = ('IndexError', 'ValueError', 'NotImplementedError', 'RuntimeError', 'TypeError', 'KeyError',
             'AttributeError', 'ZeroDivisionError', 'AssertionError')


def exc_enum(e: BaseException) -> str:
    for n in _EXC_ENUM:
        if type(e).__name__ == n:
            return n
    for n in _EXC_ENUM:
        if any(b.__name__ == n for b in type(e).__mro__):
            return n
    return 'Other'


def load_known_findings() -> list[dict]:
    p = VERIF / 'known_findings.json'
    if not p.exists():
        return []
    return json.loads(p.read_text()).get('findings', [])


def _match_value(pat, val) -> bool:
    if isinstance(pat, dict) and set(pat) == {'regex'}:
        return isinstance(val, str) and re.search(pat['regex'], val) is not None
    if isinstance(pat, dict) and set(pat) == {'any_of'}:
        return val in pat['any_of']
    if isinstance(pat, dict) and isinstance(val, dict):
        return all(k in val and _match_value(v, val[k]) for k, v in pat.items())
    return pat == val


def match_finding(findings: list[dict], prop: str, family: str, descr: dict) -> dict | None:
    for f in findings:
        if f.get('status') != 'open' or f.get('property') != prop:
            continue
        m = f.get('matcher', {})
        if 'family' in m and not _match_value(m['family'], family):
            continue
        want = {k: v for k, v in m.items() if k != 'family'}
        if all(k in descr and _match_value(v, descr[k]) for k, v in want.items()):
            return f
    return None


def jsonable(x):
    try:
        json.dumps(x)
        return x
    except TypeError:
        if isinstance(x, dict):
            return {str(k): jsonable(v) for k, v in x.items()}
        if isinstance(x, (list, tuple)):
            return [jsonable(v) for v in x]
        if isinstance(x, Fraction):
            return [x.numerator, x.denominator]
        if isinstance(x, complex):
            return [x.real, x.imag]
        return repr(x)


class Ctx:
    def __init__(self, prop: str, tier: str, seed: int):
        self.prop, self.tier, self.seed = prop, tier, seed
        self.rng = random.Random(seed)
        self.work = WORK / f'{prop}-{os.getpid()}'   # unique per run: concurrent checks of one property do not interfere
        if self.work.exists():
            shutil.rmtree(self.work, ignore_errors=True)
        self.work.mkdir(parents=True, exist_ok=True)
        self.findings = load_known_findings()
        self.t0 = time.time()
        self.evaluations = 0
        self.nontrivial_keys: set[str] = set()
        self.samples: list = []
        self.distribution: dict[str, int] = {}
        self.traces_validated = 0
        self.problems: list[dict] = []   # {'kind': 'property'|'correspondence'|'proof', ...}
        self.known_hits: dict[str, dict] = {}
        self.known_messages: dict[str, list[str]] = {}
        self.notes: list[str] = []
        self.obligations = 0
        self.discharged = 0
        self.trusted_base: list[str] = []
        self.extra: dict = {}

    def n(self, quick: int, thorough: int) -> int:
        return thorough if self.tier == 'thorough' else quick

    def count(self, key: str, k: int = 1):
        self.distribution[key] = self.distribution.get(key, 0) + k

    def problem(self, kind: str, family: str, case: dict | None, message: str, descr: dict | None = None,
                expected=None, got=None):
        d = descr if descr is not None else (case or {})
        # a finding is identified by the failing input (keys of descr) AND by what fails there (matcher key 'message', a regex on the
        # oracle's text): a different violation on the same kind of input is still reported
        d = dict(d, message=message, problem_kind=kind) if isinstance(d, dict) else d
        kf = match_finding(self.findings, self.prop, family, d) if case is not None or descr is not None else None
        if kf is not None:
            self.known_hits.setdefault(kf['id'], kf)
            self.known_messages.setdefault(kf['id'], []).append(f'[{kind}] {message}'[:300])
            return
        self.problems.append({'kind': kind, 'family': family, 'case': jsonable(case), 'message': message,
                              'expected': jsonable(expected), 'got': jsonable(got)})

    # -- running one family -------------------------------------------------------------------
    def run_family(self, fam: Family, cases: list[dict] | None = None):
        cases = cases if cases is not None else fam.gen(self.rng, self.tier)
        obs = []
        for c in cases:
            try:
                o = fam.impl(c)
            except Exception as e:  # noqa: BLE001
                o = {'raises': exc_enum(e), 'msg': str(e)[:200]}
            obs.append(o)
        model_vals: list[Any] = [None] * len(cases)
        if fam.coq is not None:
            exprs = [fam.coq(c) for c in cases]
            model_vals = coq_eval(self.work, fam.preamble, exprs, shard=fam.shard, tag=f'cases_{fam.name}')
        for c, o, mv in zip(cases, obs, model_vals):
            self.evaluations += 1
            self.count(f'family:{fam.name}')
            key = hashlib.sha1(json.dumps([fam.name, jsonable(c)], sort_keys=True, default=str).encode()).hexdigest()
            if fam.nontrivial(c):
                self.nontrivial_keys.add(key)
            if len(self.samples) < 6 and (len(self.samples) < 2 or self.rng.random() < 0.05):
                self.samples.append({'family': fam.name, 'case': jsonable(c), 'impl': _short(o),
                                     'model': _short(mv if not isinstance(mv, Exception) else str(mv))})
            d = fam.descr(c) if fam.descr else c
            if isinstance(o, dict) and 'raises' in o:
                self.count(f'impl_raises:{o["raises"]}')
            if fam.oracle is not None:
                try:
                    msg = fam.oracle(c, o)
                except Exception as e:  # noqa: BLE001
                    msg = f'oracle crashed: {e!r}'
                if isinstance(msg, tuple):  # (message, extra description keys for known-finding matching)
                    msg, extra = msg
                    d = {**d, **extra}
                if msg:
                    self.problem('property', fam.name, c, msg, d, got=o)
                    continue
            if fam.coq is not None and fam.compare is not None:
                if isinstance(mv, Exception):
                    self.problem('correspondence', fam.name, c, f'model evaluation failed: {mv}', d)
                    continue
                try:
                    msg = fam.compare(c, o, mv)
                except Exception as e:  # noqa: BLE001
                    msg = f'compare crashed: {e!r} {traceback.format_exc()[-300:]}'
                self.traces_validated += 1
                if isinstance(msg, tuple):
                    msg, extra = msg
                    d = {**d, **extra}
                if msg:
                    self.problem('correspondence', fam.name, c, msg, d, expected=mv, got=o)


def _short(x, limit=400):
    s = json.dumps(jsonable(x), default=str)
    return json.loads(s) if len(s) <= limit else s[:limit] + '...'


def close_enough(a, b, tol):
    return abs(a - b) <= tol * max(1.0, abs(a), abs(b))
