#!/bin/bash
# tools/seed_sweep.sh "<seeds>" [props...]: run quick checks on the unchanged tree for several VERIF_SEED values (false-alarm hunt)
cd "$(dirname "$0")/.."
seeds="$1"; shift
props="${@:-C01 C02 C03 C04 C05 C06 C07 C08 C09 C10 C11 C12 C13 C14 C15 C16 C17 C18 C19 C20}"
for s in $seeds; do for p in $props; do echo "$s $p"; done; done | xargs -P 3 -L 1 bash -c 'r=$(VERIF_SEED=$0 ./check $1 quick 2>/dev/null | grep -v "^KNOWN" | tail -2 | tr "\n" " "); echo "seed=$0 $r"' 
