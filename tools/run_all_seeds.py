#!/usr/bin/env python3
"""Re-run every seeded change in /verif/seeded/<id>/ against the current checks (no test suite): apply patch in a scratch
worktree, run ./check <prop> quick with VERIF_REPO, record the outcome in meta.json['detected_final'] and print a table."""
import json, os, subprocess, sys, glob
from concurrent.futures import ThreadPoolExecutor
head = subprocess.check_output(['git', '-C', '/repo', 'rev-parse', 'HEAD'], text=True).strip()
def one(d):
    sid = os.path.basename(d); prop = sid.split('-')[0]
    wt = f'/tmp/wt_seedrun_{sid}'
    subprocess.run(['git', '-C', '/repo', 'worktree', 'add', '--detach', wt, head], capture_output=True)
    try:
        r = subprocess.run(['git', '-C', wt, 'apply', f'{d}/patch.diff'], capture_output=True, text=True)
        if r.returncode:   # the tree moved on (fix: commits): fall back to a three-way merge of the stored patch
            r = subprocess.run(['git', '-C', wt, 'apply', '--3way', f'{d}/patch.diff'], capture_output=True, text=True)
            if r.returncode: return sid, 'patch-fails', ''
        p = subprocess.run(['./check', prop, 'quick'], cwd='/verif', env=dict(os.environ, VERIF_REPO=wt), capture_output=True, text=True)
        lines = [l for l in p.stdout.splitlines() if l.startswith('VIOLATION')]
        kind = 'missed' if p.returncode == 0 else ('failing-input' if any('no-failing-input-found' not in l for l in lines) else 'no-failing-input-found')
        m = json.load(open(f'{d}/meta.json')); m['detected_final'] = {'exit': p.returncode, 'kind': kind, 'violations': lines[:3], 'verif_commit': subprocess.check_output(['git', '-C', '/verif', 'rev-parse', '--short', 'HEAD'], text=True).strip()}
        m['detected'] = p.returncode == 1
        json.dump(m, open(f'{d}/meta.json', 'w'), indent=1)
        return sid, kind, ''
    finally:
        subprocess.run(['git', '-C', '/repo', 'worktree', 'remove', '--force', wt], capture_output=True)
dirs = sorted(glob.glob('/verif/seeded/C*-*'))
if len(sys.argv) > 1: dirs = [d for d in dirs if any(os.path.basename(d).startswith(a) for a in sys.argv[1:])]
with ThreadPoolExecutor(3) as ex:
    for sid, kind, _ in ex.map(one, dirs):
        print(sid, kind, flush=True)
