#!/usr/bin/env python3
"""Run the pinned test suite of /repo (guard off) and compare with /root/.vp/BASELINE.json stable_pass.
usage: baseline_check.py [pytest args...]   exit 0 iff every stable_pass test that was run passed
(with no args: whole suite, and every stable_pass test must be present and pass)."""
import ast, json, os, subprocess, sys, tempfile, xml.etree.ElementTree as ET
base = json.load(open('/root/.vp/BASELINE.json'))
stable = base['stable_pass']
if isinstance(stable, str): stable = ast.literal_eval(stable)
stable = set(stable)
args = sys.argv[1:]
fd, junit = tempfile.mkstemp(suffix='.xml', dir='/var/tmp'); os.close(fd)
env = dict(os.environ); env.pop('PTB_MR_MRPRO_VERIF', None)
cmd = ['/venv/bin/python', '-m', 'pytest', '-ra', '-q', '-p', 'no:cacheprovider', '--timeout=900',
       '--continue-on-collection-errors', f'--junitxml={junit}'] + (['-n', '8'] if os.environ.get('XDIST') else []) + args
subprocess.call(cmd, cwd=os.environ.get('BASELINE_REPO', '/repo'), env=dict(env, PYTHONPATH=os.path.join(os.environ.get('BASELINE_REPO', '/repo'), 'src')), stdout=subprocess.DEVNULL, stderr=subprocess.DEVNULL)
passed, failed = set(), set()
for tc in ET.parse(junit).getroot().iter('testcase'):
    name = f"{tc.get('classname')}::{tc.get('name')}"
    bad = any(ch.tag in ('failure', 'error', 'skipped') for ch in tc)
    (failed if bad else passed).add(name)
os.unlink(junit)
regress = sorted(stable & failed)
missing = sorted(stable - passed - failed) if not args else []
print(f'stable={len(stable)} passed_stable={len(stable & passed)} regressed={len(regress)} missing={len(missing)}')
for n in regress[:40]: print('REGRESSED', n)
for n in missing[:20]: print('MISSING', n)
sys.exit(1 if regress or missing else 0)
