#!/bin/bash
# tools/build.sh [make targets...]   e.g. tools/build.sh Properties/C06.vo
# Only the project/Makefile generation is serialised; the build runs under a time and memory limit.
V="$(cd "$(dirname "$0")/.." && pwd)"
flock "$V/coq/.build.lock" bash -c "
  '$V/tools/gen_coqproject.sh'
  cd '$V/coq'
  if [ ! -f Makefile ] || [ _CoqProject -nt Makefile ]; then coq_makefile -f _CoqProject -o Makefile >/dev/null; fi"
cd "$V/coq" && ulimit -v 12000000 && exec timeout 1500 make -j8 "$@"
