#!/bin/bash
# tools/build.sh [make targets...]   e.g. tools/build.sh Properties/C06.vo   (serialised with the driver's lock)
V="$(cd "$(dirname "$0")/.." && pwd)"
exec flock "$V/coq/.build.lock" bash -c "
  '$V/tools/gen_coqproject.sh'
  cd '$V/coq'
  if [ ! -f Makefile ] || [ _CoqProject -nt Makefile ]; then coq_makefile -f _CoqProject -o Makefile >/dev/null; fi
  timeout 2400 make -j8 $*"
