#!/usr/bin/env python3
"""tools/try_mutation.py PROP[,PROP2] relpath OLD NEW  - apply a textual mutation in a scratch worktree and run the checks there."""
import subprocess, sys, os
props, rel, old, new = sys.argv[1].split(','), sys.argv[2], sys.argv[3], sys.argv[4]
wt = os.environ.get('WT', '/tmp/wt_main')
if not os.path.isdir(wt):
    subprocess.check_call(['git', '-C', '/repo', 'worktree', 'add', '--detach', wt, 'HEAD'], stdout=subprocess.DEVNULL, stderr=subprocess.DEVNULL)
subprocess.check_call(['git', '-C', wt, 'checkout', '-q', '--detach', subprocess.check_output(['git', '-C', '/repo', 'rev-parse', 'HEAD'], text=True).strip()])
subprocess.check_call(['git', '-C', wt, 'checkout', '--', '.'])
p = os.path.join(wt, rel)
s = open(p).read()
assert s.count(old) >= 1, 'pattern not found'
open(p, 'w').write(s.replace(old, new, 1))
for prop in props:
    r = subprocess.run(['./check', prop, 'quick'], cwd='/verif', env=dict(os.environ, VERIF_REPO=wt), capture_output=True, text=True)
    out = [l for l in r.stdout.splitlines() if l.startswith(('VIOLATION', 'KNOWN', prop))]
    print(f'[{prop}] exit={r.returncode}', ' | '.join(o[:160] for o in out))
subprocess.check_call(['git', '-C', wt, 'checkout', '--', '.'])
