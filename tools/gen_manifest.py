#!/usr/bin/env python3
"""Regenerate /verif/MANIFEST.json from the table below (claimed properties = those with harness/props/Cxx.py and
coq/Properties/Cxx.v present and listed in CLAIMED)."""
import json, subprocess
from pathlib import Path
V = Path(__file__).resolve().parent.parent
CLAIMED = {f.stem: json.loads(f.read_text()) for f in sorted((Path(__file__).resolve().parent.parent / 'manifest.d').glob('C*.json'))}
REASON_NOT_YET = 'machinery for this property is not built yet in this revision (see DESIGN.md section 5 staging)'
def main():
    props = [json.loads(l) for l in (V / 'properties.jsonl').read_text().splitlines() if l.strip()]
    head = subprocess.run(['git', '-C', '/repo', 'log', '--format=%H %s'], capture_output=True, text=True).stdout.splitlines()
    fixes = [l.split()[0] for l in head if ' fix:' in l or l.split(' ', 1)[1].startswith('fix:')]
    checks, na = [], []
    for p in props:
        pid = p['id']
        c = CLAIMED.get(pid)
        if c and (V / 'harness' / 'props' / f'{pid}.py').exists() and (V / 'coq' / 'Properties' / f'{pid}.v').exists():
            checks.append({'property_id': pid, 'quick_cmd': f'./check {pid} quick', 'thorough_cmd': f'./check {pid} thorough',
                           'evidence_file': f'/verif/evidence/{pid}.json', 'replay_cmd_template': f'./check {pid} --replay {{path}}',
                           'engine': 'coq-proof+correspondence',
                           'level_claimed': {'category': c.get('category', 'proof'), 'text': c['text'], 'design_ref': c['ref']},
                           'level_note': c['note'], 'technique': c['technique']})
        else:
            na.append({'property_id': pid, 'reason': (c or {}).get('na_reason', REASON_NOT_YET)})
    m = {'version': 1, 'setup_cmd': './setup.sh',
         'hooks': {'guard': 'PTB_MR_MRPRO_VERIF', 'enable': 'no source hooks are needed: checks observe the public API of /repo/src (PYTHONPATH=/repo/src); the variable is set by ./check but read by nothing in /repo',
                   'baseline_off_cmd': 'python3 /verif/tools/baseline_check.py', 'source_commits': [], 'add_only': True},
         'engines': [{'name': 'coq-proof+correspondence', 'path': '/verif/check', 'serves_properties': [c['property_id'] for c in checks],
                      'kind_free_text': 'Coq 8.16.1 development (coq/) with hand-written executable models and theorems; per-run tie to /repo by ast translators (regenerated obligations) and by differential correspondence (implementation vs vm_compute of the model); driver harness/vcheck.py'}],
         'checks': checks, 'not_applicable': na,
         'notes': 'fix: commits in /repo (genuine defects repaired, see known_findings.json): ' + ' '.join(f[:7] for f in fixes)}
    (V / 'MANIFEST.json').write_text(json.dumps(m, indent=1))
    print(f'{len(checks)} claimed, {len(na)} not claimed')
if __name__ == '__main__':
    main()
