#!/bin/bash
# assemble coq/_CoqProject from coq/project.d/*.txt (one fragment per property; order is irrelevant, coqdep sorts);
# entries whose file does not exist (yet) are skipped so that an unfinished fragment cannot break other builds
cd "$(dirname "$0")/../coq"
{
  echo "-Q . MrVerif"
  echo "-arg -w -arg -notation-overridden,-deprecated-hint-without-locality,-ambiguous-paths"
  cat project.d/*.txt | grep -v '^\s*$' | grep -v '^#' | sort -u | while read -r f; do [ -f "$f" ] && echo "$f"; done
} > _CoqProject.new.$$
if ! cmp -s _CoqProject.new.$$ _CoqProject; then mv _CoqProject.new.$$ _CoqProject; else rm _CoqProject.new.$$; fi
