#!/usr/bin/env python3
"""tools/eval_seed.py Cxx k [--full] [--props C01,C09]
Validate a seeded change /tmp/seed_out/Cxx/k: apply it in a scratch worktree, run its demo with and without the change,
run the tests named in meta.json (or the full suite with --full) against the BASELINE stable set, run our checks against
the changed tree, and store everything under /verif/seeded/Cxx-k/ (kept only if demo and tests behave as claimed)."""
import json, os, shutil, subprocess, sys
prop, k = sys.argv[1], sys.argv[2]
full = '--full' in sys.argv
props = [prop]
for a in sys.argv[3:]:
    if a.startswith('--props'):
        props = a.split('=')[1].split(',')
src = f"{os.environ.get('SEED_SRC', '/tmp/seed_out')}/{prop}/{k}"
tag = os.environ.get('SEED_TAG', '')
wt = os.environ.get('WT', f'/tmp/wt_eval_{prop}')
head = subprocess.check_output(['git', '-C', '/repo', 'rev-parse', 'HEAD'], text=True).strip()
if not os.path.isdir(wt):
    subprocess.check_call(['git', '-C', '/repo', 'worktree', 'add', '--detach', wt, 'HEAD'], stdout=subprocess.DEVNULL, stderr=subprocess.DEVNULL)
subprocess.check_call(['git', '-C', wt, 'checkout', '-q', '--detach', head])
subprocess.check_call(['git', '-C', wt, 'checkout', '--', '.'])
r = subprocess.run(['git', '-C', wt, 'apply', f'{src}/patch.diff'], capture_output=True, text=True)
if r.returncode != 0:
    print('PATCH DOES NOT APPLY', r.stderr[:300]); sys.exit(2)
def run(cmd, env=None, cwd=None, timeout=3000):
    p = subprocess.run(cmd, capture_output=True, text=True, env=env, cwd=cwd, timeout=timeout)
    return p.returncode, (p.stdout + p.stderr)
env_w = dict(os.environ, PYTHONPATH=f'{wt}/src', PYTHONWARNINGS='ignore')
env_r = dict(os.environ, PYTHONPATH='/repo/src', PYTHONWARNINGS='ignore')
rc_w, out_w = run(['/venv/bin/python', f'{src}/demo.py'], env=env_w, cwd=src)
rc_r, out_r = run(['/venv/bin/python', f'{src}/demo.py'], env=env_r, cwd=src)
meta = json.load(open(f'{src}/meta.json'))
tests = [] if full else [t for t in meta.get('tests_run', []) if t.startswith('tests')]
rc_t, out_t = run(['python3', '/verif/tools/baseline_check.py'] + tests, env=dict(os.environ, BASELINE_REPO=wt, XDIST='1'))
checks = {}
for pp in props:
    rc_c, out_c = run(['./check', pp, 'quick'], env=dict(os.environ, VERIF_REPO=wt), cwd='/verif')
    lines = [l for l in out_c.splitlines() if l.startswith(('VIOLATION', pp + ' '))]
    checks[pp] = {'exit': rc_c, 'lines': lines[:4]}
subprocess.check_call(['git', '-C', wt, 'checkout', '--', '.'])
ok_demo = (rc_w != 0 and rc_r == 0)
# test_optimizers_rosenbrock[*] is order dependent under xdist (a once-per-process UserWarning is turned into an error): ignore it
real_regress = [l for l in out_t.splitlines() if l.startswith(('REGRESSED', 'MISSING')) and 'test_optimizers_rosenbrock' not in l]
ok_tests = (rc_t == 0) or not real_regress
detected = any(c['exit'] == 1 and any(l.startswith('VIOLATION') for l in c['lines']) for c in checks.values())
print(f'{prop}-{tag}{k}: demo patched={rc_w} clean={rc_r} ({"OK" if ok_demo else "BAD"}); tests {"pass" if ok_tests else "FAIL"} [{out_t.strip().splitlines()[0] if out_t.strip() else ""}]; detected={detected} {checks}')
if ok_demo and ok_tests:
    dst = f'/verif/seeded/{prop}-{tag}{k}'
    os.makedirs(dst, exist_ok=True)
    for f in ('patch.diff', 'demo.py'):
        shutil.copy(f'{src}/{f}', dst)
    meta.update({'breaks_property': prop, 'confirmed': {'demo_exit_with_change': rc_w, 'demo_exit_without': rc_r,
                 'tests': ('full pinned suite' if full else tests), 'tests_result': out_t.strip().splitlines()[0] if out_t.strip() else '',
                 'repo_head': head}, 'checks_run': checks, 'detected': detected,
                 'what_i_ran': f'git apply patch.diff in a scratch worktree of /repo@{head[:7]}; demo.py with and without; tools/baseline_check.py {" ".join(tests) or "(full)"}; VERIF_REPO=<worktree> ./check <prop> quick'})
    json.dump(meta, open(f'{dst}/meta.json', 'w'), indent=1)
else:
    print('  demo output (patched):', out_w[-300:].replace('\n', ' | '))
